(** The counterparty side of the enforcement state machine (Model/Enforcement.v): window of
    unrevoked commitments, revocations verified against the signed point, re-signing only for
    identical point and content.  Used by Props/C03.v. *)
From VLS Require Import Base.U64 Model.Enforcement Proofs.EnforcementProofs.
From Coq Require Import ZifyBool ZifyN ZifyNat.

Local Open Scope N_scope.

Definition cpf (e : estate) := (next_c e, next_r e, cur_pt e, prev_pt e, cur_c e).

(** a request that does not touch the counterparty side: neither image changes there and no
    counterparty signature is returned *)
Definition cframe (ch : chan) (res : chan * outp) : Prop :=
  cpf (mem (fst res)) = cpf (mem ch) /\ cpf (disk (fst res)) = cpf (mem ch) /\
  o_cpsig (snd res) = None.

Ltac crush := repeat match goal with
  | |- context [match ?x with _ => _ end] => destruct x eqn:?
  end; cbn [mem disk persist keep cpf fst snd next_c next_r cur_pt prev_pt cur_c prev_c advance_h
            set_nxt_h set_closed o_cpsig st refused aborted ok0 ok_point ok_ps] in *; auto.

Section Frames.
Variables (warn : tag -> bool) (prof : profile).

Lemma fr_release e n : o_cpsig (release warn prof e n) = None.
Proof. unfold release, tbind. crush. Qed.

Lemma fr_validate ch n c sg pl :
  cpf (disk ch) = cpf (mem ch) -> cframe ch (do_validate warn prof ch n c sg pl).
Proof. intros H. unfold cframe, do_validate. crush. Qed.

Lemma fr_revoke ch n py :
  cpf (disk ch) = cpf (mem ch) -> cframe ch (do_revoke warn prof ch n py).
Proof.
  intros H. unfold cframe, do_revoke. crush; try (rewrite fr_release; auto).
  all: match goal with
       | Hr : release warn prof ?e ?n = _ |- _ =>
           pose proof (fr_release e n) as Hx; rewrite Hr in Hx; cbn in Hx; auto
       end.
Qed.

Lemma fr_activate ch : cpf (disk ch) = cpf (mem ch) -> cframe ch (do_activate ch).
Proof. intros H. unfold cframe, do_activate. crush. Qed.
Lemma fr_get_point ch n : cpf (disk ch) = cpf (mem ch) -> cframe ch (do_get_point ch n).
Proof. intros H. unfold cframe, do_get_point. crush. Qed.
Lemma fr_get_secret ch n : cpf (disk ch) = cpf (mem ch) -> cframe ch (do_get_secret warn prof ch n).
Proof. intros H. unfold cframe, do_get_secret. crush. Qed.
Lemma fr_get_secret_or_none ch n :
  cpf (disk ch) = cpf (mem ch) -> cframe ch (do_get_secret_or_none prof ch n).
Proof. intros H. unfold cframe, do_get_secret_or_none. crush. Qed.
Lemma fr_sign_holder ch n : cpf (disk ch) = cpf (mem ch) -> cframe ch (do_sign_holder warn prof ch n).
Proof. intros H. unfold cframe, do_sign_holder, tbind. crush. Qed.
Lemma fr_sign_recovery ch : cpf (disk ch) = cpf (mem ch) -> cframe ch (do_sign_recovery prof ch).
Proof. intros H. unfold cframe, do_sign_recovery. crush. Qed.
Lemma fr_sign_redundant ch n c pl :
  cpf (disk ch) = cpf (mem ch) -> cframe ch (do_sign_redundant warn prof ch n c pl).
Proof. intros H. unfold cframe, do_sign_redundant. crush. Qed.
Lemma fr_mutual_close ch ok : cpf (disk ch) = cpf (mem ch) -> cframe ch (do_mutual_close ch ok).
Proof. intros H. unfold cframe, do_mutual_close. crush. Qed.
Lemma fr_hget_point_old ch n :
  cpf (disk ch) = cpf (mem ch) -> cframe ch (hget_point_old warn prof ch n).
Proof. intros H. unfold cframe, hget_point_old. crush. Qed.
Lemma fr_hrevoke ch n py : cpf (disk ch) = cpf (mem ch) -> cframe ch (hrevoke warn prof ch n py).
Proof.
  intros H. unfold hrevoke, tbind. destruct (add_checked n 1) as [n1|]; [|unfold cframe; cbn; auto].
  pose proof (fr_revoke ch n1 py H) as Hr.
  destruct (do_revoke warn prof ch n1 py) as [ch' o]. unfold cframe in *. cbn [fst snd] in *.
  destruct (st o); try exact Hr. destruct (o_secret o); [exact Hr|].
  cbn [fst snd o_cpsig refused]. tauto.
Qed.

Lemma fr_then ch f g :
  cpf (disk ch) = cpf (mem ch) ->
  cframe ch (f ch) ->
  (forall ch1, cpf (disk ch1) = cpf (mem ch1) -> cframe ch1 (g ch1)) ->
  cframe ch (and_then f g ch).
Proof.
  intros H Hf Hg. unfold and_then. destruct (f ch) as [ch1 o1] eqn:Ef.
  unfold cframe in Hf. cbn [fst snd] in Hf. destruct Hf as [H1 [H2 H3]].
  destruct (st o1); try (unfold cframe; cbn [fst snd]; tauto).
  specialize (Hg ch1 ltac:(congruence)). unfold cframe in *.
  destruct (g ch1) as [ch2 o2]. cbn [fst snd] in *. destruct Hg as [G1 [G2 G3]].
  repeat split; congruence.
Qed.

End Frames.

(** * the counterparty invariant *)

Record CI (nc nr : N) (cpt ppt : option point) (cc : option content)
          (cps : list (N * point * content)) (cpr : list (N * point)) : Prop := {
  c_win : nc <= nr + 2;
  c_rev : nr <= nc;
  c_sig : forall n p c, In (n, p, c) cps ->
          n < nc /\ (n + 1 = nc -> cpt = Some p /\ cc = Some c) /\ (n + 2 = nc -> ppt = Some p);
  c_fun : forall n p1 c1 p2 c2, In (n, p1, c1) cps -> In (n, p2, c2) cps -> p1 = p2 /\ c1 = c2;
  c_cur : forall p, cpt = Some p -> 1 <= nc /\ exists c, In (nc - 1, p, c) cps;
  c_prev : forall p, ppt = Some p -> 2 <= nc /\ exists c, In (nc - 2, p, c) cps;
  c_rvk : forall r p, In (r, p) cpr -> r < nr /\ exists c, In (r, p, c) cps;
  c_all : forall j, j < nr -> exists p, In (j, p) cpr
}.

Definition CIe (e : estate) cps cpr :=
  CI (next_c e) (next_r e) (cur_pt e) (prev_pt e) (cur_c e) cps cpr.

Lemma CIe_cpf e e' cps cpr : cpf e' = cpf e -> CIe e cps cpr -> CIe e' cps cpr.
Proof. unfold cpf, CIe. intros H. inversion H. congruence. Qed.

Lemma CI_init : CI 0 0 None None None [] [].
Proof.
  constructor; try lia; try (intros; contradiction); try (intros; discriminate).
Qed.

Lemma CI_sign_new nc nr cpt ppt cc cps cpr n pt c :
  CI nc nr cpt ppt cc cps cpr -> n = nc -> n <= nr + 1 ->
  CI (n + 1) nr (Some pt) cpt (Some c) ((n, pt, c) :: cps) cpr.
Proof.
  intros [A B C D E F G H] -> Hn. constructor.
  - lia.
  - lia.
  - intros m p c0 [Hin|Hin].
    + inversion Hin; subst. repeat split; intros; try lia; auto.
    + destruct (C m p c0 Hin) as [C1 [C2 C3]]. split; [lia|]. split; [intros; lia|].
      intros Hm. apply C2. lia.
  - intros m p1 c1 p2 c2 [H1|H1] [H2|H2].
    + inversion H1; inversion H2; subst; auto.
    + inversion H1; subst. destruct (C _ _ _ H2) as [Hlt _]. lia.
    + inversion H2; subst. destruct (C _ _ _ H1) as [Hlt _]. lia.
    + eapply D; eassumption.
  - intros p Hp. inversion Hp; subst. split; [lia|]. exists c. left. f_equal. f_equal. lia.
  - intros p Hp. destruct (E p Hp) as [E1 [c0 E2]]. split; [lia|]. exists c0. right.
    replace (nc + 1 - 2) with (nc - 1) by lia. exact E2.
  - intros r p Hin. destruct (G r p Hin) as [G1 [c0 G2]]. split; [exact G1|]. exists c0. right. exact G2.
  - exact H.
Qed.

Lemma CI_sign_retry nc nr cpt ppt cc cps cpr n pt c :
  CI nc nr cpt ppt cc cps cpr -> n + 1 = nc -> cpt = Some pt -> cc = Some c ->
  CI nc nr cpt ppt cc ((n, pt, c) :: cps) cpr.
Proof.
  intros [A B C D E F G H] Hn Hp Hc. constructor; auto.
  - intros m p c0 [Hin|Hin]; [|auto].
    inversion Hin; subst. repeat split; intros; try lia; auto.
  - intros m p1 c1 p2 c2 [H1|H1] [H2|H2].
    + inversion H1; inversion H2; subst; auto.
    + inversion H1; subst. destruct (C _ _ _ H2) as [_ [C2 _]]. destruct (C2 eq_refl). split; congruence.
    + inversion H2; subst. destruct (C _ _ _ H1) as [_ [C2 _]]. destruct (C2 eq_refl). split; congruence.
    + eapply D; eassumption.
  - intros p Hpp. destruct (E p Hpp) as [E1 [c0 E2]]. split; [exact E1|]. exists c0. right. exact E2.
  - intros p Hpp. destruct (F p Hpp) as [F1 [c0 F2]]. split; [exact F1|]. exists c0. right. exact F2.
  - intros r p Hin. destruct (G r p Hin) as [G1 [c0 G2]]. split; [exact G1|]. exists c0. right. exact G2.
Qed.

Lemma CI_revoke nc nr cpt ppt cc cps cpr r p :
  CI nc nr cpt ppt cc cps cpr -> (r = nr \/ r + 1 = nr) -> r + 2 = nc -> ppt = Some p ->
  CI nc (r + 1) cpt ppt cc cps ((r, p) :: cpr).
Proof.
  intros [A B C D E F G H] Hr Hn Hp. constructor; auto.
  - lia.
  - lia.
  - intros r0 p0 [Hin|Hin].
    + inversion Hin; subst. split; [lia|]. destruct (F p0 eq_refl) as [_ [c0 F2]]. exists c0.
      replace (r0 + 2 - 2) with r0 in F2 by lia. exact F2.
    + destruct (G r0 p0 Hin) as [G1 G2]. split; [lia | exact G2].
  - intros j Hj. destruct (N.lt_ge_cases j nr) as [Hlt|Hge].
    + destruct (H j Hlt) as [p0 Hp0]. exists p0. right. exact Hp0.
    + exists p. left. f_equal. lia.
Qed.

(** * the two counterparty requests *)

Section CP.
Variable warn : tag -> bool.
Variable prof : profile.
Hypothesis W5 : warn TPrevRevoked = false.
Hypothesis W6 : warn TRetrySame = false.
Hypothesis W4 : warn TOther = false.

Lemma opt_eqb_true a b : opt_eqb a b = true -> a = Some b.
Proof. destruct a; cbn; [intros H; apply N.eqb_eq in H; congruence | discriminate]. Qed.

(** what an accepted signing request did *)
Lemma do_sign_cp_ok ch n pt c pl cps cpr :
  n <= U64MAX -> CIe (mem ch) cps cpr ->
  let res := do_sign_cp warn prof ch n pt c pl in
  match st (snd res) with
  | Ok => o_cpsig (snd res) = Some (n, pt, c) /\ mem (fst res) = disk (fst res) /\
          n <= next_r (mem ch) + 1 /\
          CIe (mem (fst res)) ((n, pt, c) :: cps) cpr
  | _ => fst res = ch /\ o_cpsig (snd res) = None
  end.
Proof.
  intros Hn HC. unfold do_sign_cp, tbind, perr. rewrite W5. cbn [negb]. rewrite !andb_true_r.
  destruct (negb pl); [cbn; auto|].
  destruct (next_r (mem ch) + 1 <? n) eqn:Ew; [cbn; auto|].
  destruct (add_p prof n 1) as [n1|] eqn:Ea; [|cbn; auto].
  destruct (negb (validate_cp_state warn (mem ch) n n1 _ pt c)) eqn:Ev; [cbn; auto|].
  destruct (negb (cp_commit_guard warn (mem ch) n1)) eqn:Eg; [cbn; auto|].
  apply negb_false_iff in Ev, Eg.
  unfold cp_commit_guard, perr in Eg. rewrite W4, W5 in Eg. cbn [negb] in Eg. rewrite !andb_true_r in Eg.
  apply andb_prop in Eg. destruct Eg as [Eg Eg3]. apply andb_prop in Eg. destruct Eg as [Eg1 Eg2].
  apply negb_true_iff, N.eqb_neq in Eg1.
  assert (Hn1 : n1 = n + 1).
  { destruct (add_p_val _ _ _ _ Ea Hn ltac:(lia)) as [H|[_ [Hge H]]]; [exact H|].
    exfalso. unfold two64, U64MAX in *. lia. }
  subst n1.
  unfold set_cp_commit. destruct (n + 1 =? 0) eqn:E0; [apply N.eqb_eq in E0; lia|].
  unfold validate_cp_state, perr in Ev. rewrite W5, W6 in Ev. cbn [negb] in Ev.
  rewrite !andb_true_r, !orb_false_r in Ev. apply andb_prop in Ev. destruct Ev as [_ Ev].
  destruct (n + 1 =? next_c (mem ch) + 1) eqn:Enew.
  - (* a new commitment number *)
    apply N.eqb_eq in Enew.
    replace (next_c (mem ch) + 1 <=? n + 1) with true by lia.
    cbn [st snd fst o_cpsig persist mem disk]. split; [reflexivity|]. split; [reflexivity|].
    split; [lia|]. unfold CIe in *. cbn [next_c next_r cur_pt prev_pt cur_c].
    eapply CI_sign_new; [exact HC | lia | lia].
  - (* a retry of the current number *)
    apply N.eqb_neq in Enew.
    assert (Hret : n + 1 = next_c (mem ch)).
    { destruct (n + 1 =? next_c (mem ch)) eqn:Er; [apply N.eqb_eq in Er; exact Er | cbn in Eg3; discriminate]. }
    replace ((next_c (mem ch) + 1 <? n + 1) || (n + 1 <? next_c (mem ch))) with false by lia.
    replace (next_c (mem ch) + 1 <=? n + 1) with false by lia.
    cbn [st snd fst o_cpsig persist mem disk]. split; [reflexivity|]. split; [reflexivity|].
    split; [lia|]. unfold CIe in *. cbn [next_c next_r cur_pt prev_pt cur_c].
    unfold prev_info_for in Ev. rewrite <- Hret in HC, Ev. rewrite !N.eqb_refl in Ev.
    apply andb_prop in Ev. destruct Ev as [Ev1 Ev2].
    apply opt_eqb_true in Ev1. apply opt_eqb_true in Ev2.
    eapply CI_sign_retry; [exact HC | reflexivity | exact Ev1 | exact Ev2].
Qed.

(** what an accepted revocation did *)
Lemma do_revocation_ok ch r p sec chn cps cpr :
  r <= U64MAX -> CIe (mem ch) cps cpr ->
  let res := do_revocation warn prof ch r p sec chn in
  match st (snd res) with
  | Ok => o_cpsig (snd res) = None /\ mem (fst res) = disk (fst res) /\ chn = true /\
          CIe (mem (fst res)) cps ((r, p) :: cpr)
  | _ => fst res = ch /\ o_cpsig (snd res) = None
  end.
Proof.
  intros Hr HC. unfold do_revocation, tbind, perr. rewrite W5. cbn [negb]. rewrite !andb_true_r.
  destruct (add_p prof r 1) as [r1|] eqn:Ea; [|cbn; auto].
  destruct (if r1 =? next_c (mem ch) then Val 0 else add_p prof r 2) as [r2|] eqn:E2.
  2:{ destruct (negb (r =? next_r (mem ch)) && negb (r1 =? next_r (mem ch))); cbn; auto. }
  destruct (negb (revocation_checks warn (mem ch) r r1 r2 p)) eqn:Ec; [cbn; auto|].
  destruct (sub_p prof INITIAL_COMMITMENT_NUMBER r); [|cbn; auto].
  destruct (negb (cp_revoke_guard warn (mem ch) r1)) eqn:Eg; [cbn; auto|].
  destruct chn; cbn [negb]; [|cbn; auto].
  apply negb_false_iff in Ec, Eg.
  unfold cp_revoke_guard, perr in Eg. rewrite W4, W5 in Eg. cbn [negb] in Eg. rewrite !andb_true_r in Eg.
  apply andb_prop in Eg. destruct Eg as [Eg Eg4]. apply andb_prop in Eg. destruct Eg as [Eg Eg3].
  apply andb_prop in Eg. destruct Eg as [Eg1 Eg2].
  apply negb_true_iff, N.eqb_neq in Eg1. apply negb_true_iff, N.ltb_ge in Eg2.
  apply negb_true_iff, N.ltb_ge in Eg3.
  assert (Hr1 : r1 = r + 1).
  { destruct (add_p_val _ _ _ _ Ea Hr ltac:(lia)) as [H|[_ [Hge H]]]; [exact H|].
    exfalso. unfold two64, U64MAX in *. lia. }
  subst r1.
  unfold revocation_checks, perr in Ec. rewrite W5 in Ec. cbn [negb] in Ec.
  rewrite !andb_true_r, orb_false_r in Ec. apply andb_prop in Ec. destruct Ec as [Ec1 Ec2].
  apply opt_eqb_true in Ec2. unfold prev_point_for in Ec2.
  destruct (r + 1 =? next_c (mem ch)) eqn:Ecur; [apply N.eqb_eq in Ecur; lia|].
  (* so r2 really is r + 2 as far as the comparison with next_c goes *)
  destruct (r2 =? next_c (mem ch)) eqn:Eprev; [|discriminate].
  apply N.eqb_eq in Eprev.
  assert (Hr2 : r + 2 = next_c (mem ch)).
  { destruct (add_p_val _ _ _ _ E2 Hr ltac:(lia)) as [H|[_ [Hge H]]]; [lia|].
    exfalso. unfold two64, U64MAX in *. lia. }
  unfold set_cp_revoke. destruct (r + 1 =? 0) eqn:E0; [apply N.eqb_eq in E0; lia|].
  cbn [st snd fst o_cpsig ok0 persist mem disk].
  split; [reflexivity|]. split; [reflexivity|]. split; [reflexivity|].
  unfold CIe in *. cbn [next_c next_r cur_pt prev_pt cur_c].
  eapply CI_revoke; [exact HC | | exact Hr2 | exact Ec2].
  destruct (r =? next_r (mem ch)) eqn:Ex; [left; apply N.eqb_eq in Ex; exact Ex|].
  destruct (r + 1 =? next_r (mem ch)) eqn:Ey; [right; apply N.eqb_eq in Ey; exact Ey|].
  cbn in Ec1. discriminate.
Qed.

(** ** one request against the slot *)

Definition CSInv (s : slot) (g : ghost) : Prop :=
  match s with
  | Stub => cpsigned g = [] /\ cprevoked g = []
  | Ready ch => cpf (disk ch) = cpf (mem ch) /\ CIe (mem ch) (cpsigned g) (cprevoked g)
  end.

Lemma settle_frame ch f cps cpr :
  cpf (disk ch) = cpf (mem ch) -> CIe (mem ch) cps cpr -> cframe ch (f ch) ->
  match settle (f ch) with
  | Stub => False
  | Ready ch' => cpf (disk ch') = cpf (mem ch') /\ CIe (mem ch') cps cpr
  end /\ o_cpsig (snd (f ch)) = None.
Proof.
  intros Hd HC [F1 [F2 F3]]. split; [|exact F3]. unfold settle.
  destruct (f ch) as [ch' r]. cbn [fst snd] in *.
  destruct (st r); cbn [crash mem disk].
  - split; [congruence | eapply CIe_cpf; [exact F1 | exact HC]].
  - split; [congruence | eapply CIe_cpf; [exact F1 | exact HC]].
  - split; [reflexivity | eapply CIe_cpf; [exact F2 | exact HC]].
Qed.

Ltac finish_frame Hs Hn r :=
  destruct (st r); cbv beta iota zeta;
  cbn [fst snd CSInv cpsigned cprevoked crash mem disk] in *; rewrite ?Hn; cbn [opt_cons]; exact Hs.

Ltac frame_op f L :=
  match goal with
  | Hd : cpf (disk ?ch) = cpf (mem ?ch), HC : CIe (mem ?ch) _ _ |- _ =>
      let Hs := fresh "Hs" in let Hn := fresh "Hn" in
      let ch' := fresh "ch'" in let r := fresh "r" in
      pose proof (settle_frame ch f _ _ Hd HC L) as [Hs Hn];
      rewrite gstep_unfold; unfold step; cbn [step0 on_ready];
      unfold settle in Hs;
      destruct (f ch) as [ch' r]; cbv beta iota zeta; cbn [fst snd] in *;
      finish_frame Hs Hn r
  end.

Theorem cs_step s g o :
  wf_op o -> CSInv s g ->
  let sg := fst (gstep warn prof (s, g) o) in CSInv (fst sg) (snd sg).
Proof.
  intros Hwf Hinv. destruct s as [|ch].
  - destruct Hinv as [Hs Hr]. rewrite gstep_unfold.
    destruct o; cbn [step step0 on_ready validates fst snd st refused ok0 ok_point crash];
      try (cbn [CSInv cpsigned cprevoked opt_cons o_cpsig refused ok0]; auto; fail).
    + destruct ((n =? 0) || (n =? 1)); cbn [st ok_point refused fst snd CSInv cpsigned cprevoked opt_cons o_cpsig]; auto.
    + destruct ((n =? 0) || (n =? 1)); cbn [st ok_point refused fst snd CSInv cpsigned cprevoked opt_cons o_cpsig]; auto.
    + (* Setup *)
      cbn [CSInv persist mem disk cpsigned cprevoked opt_cons o_cpsig ok0 fst snd].
      split; [reflexivity|]. rewrite Hs, Hr. unfold CIe, fresh_estate; cbn [next_c next_r cur_pt prev_pt cur_c].
      apply CI_init.
  - destruct Hinv as [Hd HC]. destruct o; cbn [wf_op] in Hwf.
    + frame_op (fun ch => do_validate warn prof ch n c sig_ok pol_ok) (fr_validate warn prof ch n c sig_ok pol_ok Hd).
    + frame_op (fun ch => do_revoke warn prof ch n pay_ok) (fr_revoke warn prof ch n pay_ok Hd).
    + frame_op do_activate (fr_activate ch Hd).
    + frame_op (fun ch => do_get_point ch n) (fr_get_point ch n Hd).
    + frame_op (fun ch => do_get_secret warn prof ch n) (fr_get_secret warn prof ch n Hd).
    + frame_op (fun ch => do_get_secret_or_none prof ch n) (fr_get_secret_or_none prof ch n Hd).
    + frame_op (fun ch => do_sign_holder warn prof ch n) (fr_sign_holder warn prof ch n Hd).
    + frame_op (do_sign_recovery prof) (fr_sign_recovery prof ch Hd).
    + frame_op (fun ch => do_sign_redundant warn prof ch n c pol_ok) (fr_sign_redundant warn prof ch n c pol_ok Hd).
    + frame_op (fun ch => do_mutual_close ch ok) (fr_mutual_close ch ok Hd).
    + (* SignCp *)
      pose proof (do_sign_cp_ok ch n pt c pol_ok _ _ Hwf HC) as Hs. cbv zeta in Hs.
      rewrite gstep_unfold. unfold step. cbn [step0 on_ready].
      destruct (do_sign_cp warn prof ch n pt c pol_ok) as [ch' r]. cbv beta iota zeta. cbn [fst snd] in *.
      destruct (st r); cbv beta iota zeta.
      * destruct Hs as [H1 [H2 [_ H4]]]. rewrite H1. cbn [fst snd CSInv cpsigned cprevoked opt_cons].
        split; [congruence | exact H4].
      * destruct Hs as [-> H2]. rewrite H2. cbn [fst snd CSInv cpsigned cprevoked opt_cons]. auto.
      * destruct Hs as [-> H2]. rewrite H2. cbn [fst snd CSInv crash mem disk cpsigned cprevoked opt_cons].
        split; [reflexivity | eapply CIe_cpf; [exact Hd | exact HC]].
    + (* ValidateRevocation *)
      pose proof (do_revocation_ok ch r pt_of_secret secret chains _ _ Hwf HC) as Hs. cbv zeta in Hs.
      rewrite gstep_unfold. unfold step. cbn [step0 on_ready].
      destruct (do_revocation warn prof ch r pt_of_secret secret chains) as [ch' r0]. cbv beta iota zeta. cbn [fst snd] in *.
      destruct (st r0) eqn:Es; cbv beta iota zeta.
      * destruct Hs as [H1 [H2 [_ H4]]]. rewrite H1. cbn [fst snd CSInv cpsigned cprevoked opt_cons]. rewrite ?Es.
        split; [congruence | exact H4].
      * destruct Hs as [-> H2]. rewrite H2. cbn [fst snd CSInv cpsigned cprevoked opt_cons]. rewrite ?Es. auto.
      * destruct Hs as [-> H2]. rewrite H2. cbn [fst snd CSInv crash mem disk cpsigned cprevoked opt_cons]. rewrite ?Es.
        split; [reflexivity | eapply CIe_cpf; [exact Hd | exact HC]].
    + (* HValidateOld *)
      frame_op (and_then (fun ch => do_validate warn prof ch n c sig_ok pol_ok) (fun ch => do_revoke warn prof ch n pay_ok))
               (fr_then ch (fun ch => do_validate warn prof ch n c sig_ok pol_ok)
                        (fun ch => do_revoke warn prof ch n pay_ok) Hd
                        (fr_validate warn prof ch n c sig_ok pol_ok Hd)
                        (fun ch1 H1 => fr_revoke warn prof ch1 n pay_ok H1)).
    + (* HValidateNew *)
      frame_op (and_then (fun ch => do_validate warn prof ch n c sig_ok pol_ok)
                  (fun ch => if 1 <=? n
                             then tbind (add_p prof n 1) (ch, aborted) (fun n1 => do_get_point ch n1)
                             else do_activate ch))
               (fr_then ch (fun ch => do_validate warn prof ch n c sig_ok pol_ok)
                  (fun ch => if 1 <=? n
                             then tbind (add_p prof n 1) (ch, aborted) (fun n1 => do_get_point ch n1)
                             else do_activate ch) Hd
                  (fr_validate warn prof ch n c sig_ok pol_ok Hd)
                  (fun ch1 H1 =>
                     match (1 <=? n) as b return cframe ch1 (if b then tbind (add_p prof n 1) (ch1, aborted) (fun n1 => do_get_point ch1 n1) else do_activate ch1) with
                     | true => match add_p prof n 1 as t return cframe ch1 (tbind t (ch1, aborted) (fun n1 => do_get_point ch1 n1)) with
                               | Val n1 => fr_get_point ch1 n1 H1
                               | Trap => conj eq_refl (conj H1 eq_refl)
                               end
                     | false => fr_activate ch1 H1
                     end)).
    + (* HGetPointOld *)
      assert (Heq : step0 warn prof (Ready ch) (HGetPointOld n) = on_ready (Ready ch) (fun ch => hget_point_old warn prof ch n)).
      { cbn [step0 on_ready]. unfold hget_point_old.
        destruct (negb (point_ok (mem ch) n)); [reflexivity|].
        destruct (2 <=? n); [|reflexivity].
        destruct (secret_res warn prof (mem ch) (n - 2)) as [[|]|]; reflexivity. }
      pose proof (settle_frame ch (fun ch => hget_point_old warn prof ch n) _ _ Hd HC (fr_hget_point_old warn prof ch n Hd)) as [Hs Hn].
      rewrite gstep_unfold. unfold step. rewrite Heq. unfold on_ready, settle in *.
      destruct (hget_point_old warn prof ch n) as [ch' r]. cbv beta iota zeta. cbn [fst snd] in *.
      finish_frame Hs Hn r.
    + (* HRevoke *)
      pose proof (settle_frame ch (fun ch => hrevoke warn prof ch n pay_ok) _ _ Hd HC (fr_hrevoke warn prof ch n pay_ok Hd)) as [Hs Hn].
      rewrite gstep_unfold. unfold step. cbn [step0 on_ready]. unfold hrevoke, settle in *.
      destruct (tbind _ (ch, refused) _) as [ch' r]. cbv beta iota zeta. cbn [fst snd] in *.
      finish_frame Hs Hn r.
    + (* Setup on a ready channel *)
      rewrite gstep_unfold. cbn [step step0 st refused fst snd CSInv cpsigned cprevoked opt_cons o_cpsig]. auto.
    + (* Restart *)
      rewrite gstep_unfold. cbn [step step0 st ok0 fst snd CSInv cpsigned cprevoked opt_cons o_cpsig mem disk].
      split; [reflexivity | eapply CIe_cpf; [exact Hd | exact HC]].
    + (* a refused setup on a ready channel *)
      rewrite gstep_unfold. cbn [step step0 st refused fst snd CSInv cpsigned cprevoked opt_cons o_cpsig]. auto.
Qed.

(** a counterparty signature is only returned by a signing request, and only for a number
    at most one above the revocation counter *)
Lemma cpsig_origin ch o cps cpr n p c :
  wf_op o -> cpf (disk ch) = cpf (mem ch) -> CIe (mem ch) cps cpr ->
  o_cpsig (snd (step0 warn prof (Ready ch) o)) = Some (n, p, c) ->
  n <= next_r (mem ch) + 1 /\ exists pl, o = SignCp n p c pl.
Proof.
  intros Hwf Hd HC.
  destruct o; cbn [wf_op step0 on_ready] in *.
  - pose proof (fr_validate warn prof ch n0 c0 sig_ok pol_ok Hd) as [_ [_ Hn]].
    destruct (do_validate warn prof ch n0 c0 sig_ok pol_ok); cbn [snd] in *; congruence.
  - pose proof (fr_revoke warn prof ch n0 pay_ok Hd) as [_ [_ Hn]].
    destruct (do_revoke warn prof ch n0 pay_ok); cbn [snd] in *; congruence.
  - pose proof (fr_activate ch Hd) as [_ [_ Hn]].
    destruct (do_activate ch); cbn [snd] in *; congruence.
  - pose proof (fr_get_point ch n0 Hd) as [_ [_ Hn]].
    destruct (do_get_point ch n0); cbn [snd] in *; congruence.
  - pose proof (fr_get_secret warn prof ch n0 Hd) as [_ [_ Hn]].
    destruct (do_get_secret warn prof ch n0); cbn [snd] in *; congruence.
  - pose proof (fr_get_secret_or_none prof ch n0 Hd) as [_ [_ Hn]].
    destruct (do_get_secret_or_none prof ch n0); cbn [snd] in *; congruence.
  - pose proof (fr_sign_holder warn prof ch n0 Hd) as [_ [_ Hn]].
    destruct (do_sign_holder warn prof ch n0); cbn [snd] in *; congruence.
  - pose proof (fr_sign_recovery prof ch Hd) as [_ [_ Hn]].
    destruct (do_sign_recovery prof ch); cbn [snd] in *; congruence.
  - pose proof (fr_sign_redundant warn prof ch n0 c0 pol_ok Hd) as [_ [_ Hn]].
    destruct (do_sign_redundant warn prof ch n0 c0 pol_ok); cbn [snd] in *; congruence.
  - pose proof (fr_mutual_close ch ok Hd) as [_ [_ Hn]].
    destruct (do_mutual_close ch ok); cbn [snd] in *; congruence.
  - pose proof (do_sign_cp_ok ch n0 pt c0 pol_ok _ _ Hwf HC) as Hs. cbv zeta in Hs.
    destruct (do_sign_cp warn prof ch n0 pt c0 pol_ok) as [ch' r]. cbn [fst snd] in *.
    destruct (st r).
    + destruct Hs as [H1 [_ [H3 _]]]. intros Hx. rewrite H1 in Hx. inversion Hx; subst.
      split; [exact H3 | eauto].
    + destruct Hs as [_ H2]. congruence.
    + destruct Hs as [_ H2]. congruence.
  - pose proof (do_revocation_ok ch r pt_of_secret secret chains _ _ Hwf HC) as Hs. cbv zeta in Hs.
    destruct (do_revocation warn prof ch r pt_of_secret secret chains) as [ch' r0]. cbn [fst snd] in *.
    destruct (st r0); [destruct Hs as [H1 _] | destruct Hs as [_ H1] | destruct Hs as [_ H1]]; congruence.
  - pose proof (fr_then ch (fun ch => do_validate warn prof ch n0 c0 sig_ok pol_ok)
                  (fun ch => do_revoke warn prof ch n0 pay_ok) Hd
                  (fr_validate warn prof ch n0 c0 sig_ok pol_ok Hd)
                  (fun ch1 H1 => fr_revoke warn prof ch1 n0 pay_ok H1)) as [_ [_ Hn]].
    destruct (and_then _ _ ch); cbn [snd] in *; congruence.
  - assert (Hf : cframe ch (and_then (fun ch => do_validate warn prof ch n0 c0 sig_ok pol_ok)
                  (fun ch => if 1 <=? n0
                             then tbind (add_p prof n0 1) (ch, aborted) (fun n1 => do_get_point ch n1)
                             else do_activate ch) ch)).
    { apply fr_then; [exact Hd | apply fr_validate; exact Hd |].
      intros ch1 H1. destruct (1 <=? n0); [|apply fr_activate; exact H1].
      unfold tbind. destruct (add_p prof n0 1); [apply fr_get_point; exact H1|].
      unfold cframe; cbn; auto. }
    destruct Hf as [_ [_ Hn]]. destruct (and_then _ _ ch); cbn [snd] in *; congruence.
  - destruct (negb (point_ok (mem ch) n0)); [cbn; discriminate|].
    destruct (2 <=? n0); [|cbn; discriminate].
    destruct (secret_res warn prof (mem ch) (n0 - 2)) as [[|]|]; cbn; discriminate.
  - pose proof (fr_hrevoke warn prof ch n0 pay_ok Hd) as [_ [_ Hn]]. unfold hrevoke in Hn.
    destruct (tbind _ (ch, refused) _); cbn [snd] in *; congruence.
  - cbn; discriminate.
  - cbn; discriminate.
  - cbn; discriminate.
Qed.

(** ** every history *)

Lemma cs_run ops : forall s g,
  Forall wf_op ops -> CSInv s g ->
  let sg := grun warn prof (s, g) ops in CSInv (fst sg) (snd sg).
Proof.
  induction ops as [|o ops IH]; intros s g Hwf Hinv; cbn [grun].
  - exact Hinv.
  - inversion Hwf as [|? ? Ho Hr]; subst.
    pose proof (cs_step s g o Ho Hinv) as Hs. cbv zeta in Hs.
    destruct (fst (gstep warn prof (s, g) o)) as [s1 g1]. cbn [fst snd] in Hs.
    apply (IH s1 g1 Hr Hs).
Qed.

Lemma cs_reach ops :
  Forall wf_op ops ->
  CSInv (fst (grun warn prof (Stub, ghost0) ops)) (snd (grun warn prof (Stub, ghost0) ops)).
Proof. intros Hwf. apply (cs_run ops Stub ghost0 Hwf). cbn. auto. Qed.

End CP.

(** * statements for Props/C03.v *)

Section C03.
Variable warn : tag -> bool.
Variable prof : profile.
Hypothesis W5 : warn TPrevRevoked = false.
Hypothesis W6 : warn TRetrySame = false.
Hypothesis W4 : warn TOther = false.

Let reach (ops : list op) := grun warn prof (Stub, ghost0) ops.

Lemma step_reply s o : snd (step warn prof s o) = snd (step0 warn prof s o).
Proof. unfold step. destruct (step0 warn prof s o) as [s' r]. destruct (st r); reflexivity. Qed.

Lemma gstep_reply s g o : snd (gstep warn prof (s, g) o) = snd (step warn prof s o).
Proof. rewrite gstep_unfold. destruct (step warn prof s o). reflexivity. Qed.

Lemma window ops ch n p c :
  Forall wf_op ops -> fst (reach ops) = Ready ch ->
  In (n, p, c) (cpsigned (snd (reach ops))) ->
  (exists p', In (n, p') (cprevoked (snd (reach ops)))) \/
  (next_r (mem ch) <= n /\ n < next_r (mem ch) + 2).
Proof.
  intros Hwf Hs Hin. pose proof (cs_reach warn prof W5 W6 W4 ops Hwf) as Hinv.
  fold (reach ops) in Hinv. rewrite Hs in Hinv. destruct Hinv as [_ HC].
  destruct (c_sig _ _ _ _ _ _ _ HC n p c Hin) as [Hlt _].
  pose proof (c_win _ _ _ _ _ _ _ HC).
  destruct (N.lt_ge_cases n (next_r (mem ch))) as [Hr|Hr].
  - left. apply (c_all _ _ _ _ _ _ _ HC n Hr).
  - right. lia.
Qed.

Lemma sign_needs_revocations ops o n p c :
  Forall wf_op ops -> wf_op o ->
  o_cpsig (snd (gstep warn prof (reach ops) o)) = Some (n, p, c) ->
  (exists pl, o = SignCp n p c pl) /\
  forall j, j + 1 < n -> exists p', In (j, p') (cprevoked (snd (reach ops))).
Proof.
  intros Hwf Ho. pose proof (cs_reach warn prof W5 W6 W4 ops Hwf) as Hinv. fold (reach ops) in Hinv.
  destruct (reach ops) as [s g]. cbn [fst snd] in *. rewrite gstep_reply, step_reply.
  destruct s as [|ch].
  - destruct o; cbn [step0 on_ready snd]; try (cbn; discriminate).
    + destruct ((n0 =? 0) || (n0 =? 1)); cbn; discriminate.
    + destruct ((n0 =? 0) || (n0 =? 1)); cbn; discriminate.
  - destruct Hinv as [Hd HC]. intros Hx.
    destruct (cpsig_origin warn prof W5 W6 W4 ch o _ _ n p c Ho Hd HC Hx) as [Hn Hor].
    split; [exact Hor|]. intros j Hj. apply (c_all _ _ _ _ _ _ _ HC j). lia.
Qed.

Lemma revocation_matches_signed_point ops r p :
  Forall wf_op ops -> In (r, p) (cprevoked (snd (reach ops))) ->
  exists c, In (r, p, c) (cpsigned (snd (reach ops))).
Proof.
  intros Hwf Hin. pose proof (cs_reach warn prof W5 W6 W4 ops Hwf) as Hinv. fold (reach ops) in Hinv.
  destruct (fst (reach ops)) as [|ch]; cbn [CSInv] in Hinv.
  - destruct Hinv as [_ Hr]. rewrite Hr in Hin. contradiction.
  - destruct Hinv as [_ HC]. apply (c_rvk _ _ _ _ _ _ _ HC r p Hin).
Qed.

Lemma resign_same ops n p1 c1 p2 c2 :
  Forall wf_op ops ->
  In (n, p1, c1) (cpsigned (snd (reach ops))) -> In (n, p2, c2) (cpsigned (snd (reach ops))) ->
  p1 = p2 /\ c1 = c2.
Proof.
  intros Hwf H1 H2. pose proof (cs_reach warn prof W5 W6 W4 ops Hwf) as Hinv. fold (reach ops) in Hinv.
  destruct (fst (reach ops)) as [|ch]; cbn [CSInv] in Hinv.
  - destruct Hinv as [Hs _]. rewrite Hs in H1. contradiction.
  - destruct Hinv as [_ HC]. apply (c_fun _ _ _ _ _ _ _ HC n p1 c1 p2 c2 H1 H2).
Qed.

End C03.

(** * the compact secret store: an accepted secret derives every secret stored below it *)

From VLS Require Import Model.Secrets.

Section StoreSound.
Variables (S : Type) (H : S -> S) (flip : nat -> S -> S) (eqS : S -> S -> bool).
Hypothesis eqS_sound : forall a b, eqS a b = true -> a = b.

Lemma consistent_elim secret p : forall pos (st : store S) i e,
  forallb (fun e : S * N => eqS (derive_secret S H flip secret p (snd e)) (fst e)) (firstn pos st) = true ->
  (i < pos)%nat -> nth_error st i = Some e ->
  derive_secret S H flip secret p (snd e) = fst e.
Proof.
  induction pos as [|pos IH]; intros [|e0 st] i e Hall Hi Hn; try lia.
  - destruct i; discriminate.
  - cbn [firstn forallb] in Hall. apply andb_prop in Hall. destruct Hall as [H0 Hr].
    destruct i as [|i].
    + cbn [nth_error] in Hn. inversion Hn; subst. apply eqS_sound. exact H0.
    + cbn [nth_error] in Hn. apply (IH st i e Hr); [lia | exact Hn].
Qed.

Lemma provide_accepted_derives st idx s st' i o oi :
  provide_secret S H flip eqS st idx s = (st', true) ->
  (i < place_secret idx)%nat -> nth_error st i = Some (o, oi) ->
  derive_secret S H flip s (place_secret idx) oi = o.
Proof.
  unfold provide_secret. intros Hp Hi Hn.
  destruct (Nat.ltb (length st) (place_secret idx)); [inversion Hp|].
  destruct (negb (consistent S H flip eqS s (place_secret idx) st)) eqn:Ec; [inversion Hp|].
  apply negb_false_iff in Ec. unfold consistent in Ec.
  exact (consistent_elim s (place_secret idx) (place_secret idx) st i (o, oi) Ec Hi Hn).
Qed.

End StoreSound.
