(** C14: connecting a block and disconnecting it restores the monitor (state, watches, seen);
    every admissible history ends in the monitor of its surviving best chain; no abort. *)
From VLS Require Import Model.Monitor Proofs.MonitorSets Proofs.MonitorDecode Proofs.MonitorUndo
  Proofs.MonitorSim Proofs.MonitorInv.

(** * the watch deltas of a change list, as a function of the core *)
Fixpoint cdeltas (k : core) (cs : list change) : list outpoint * list outpoint :=
  match cs with
  | [] => ([], [])
  | c :: r =>
      match core_fwd k c with
      | Ok k' => let '(a, rm) := cdeltas k' r in (change_adds k' c ++ a, change_removes k' c ++ rm)
      | Abort => ([], [])
      end
  end.

Lemma apply_all_fwd_deltas cs : forall s s1 A R,
  apply_all apply_forward s cs = Ok (s1, A, R) -> (A, R) = cdeltas (core_of s) cs.
Proof.
  induction cs as [|c r IH]; intros s s1 A R H; cbn [apply_all cdeltas] in *.
  - inversion H; reflexivity.
  - apply bind_ok in H. destruct H as [[[sa Aa] Ra] [E1 H]].
    apply bind_ok in H. destruct H as [[[sb Ab] Rb] [E2 H]]. inversion H; subst.
    destruct (apply_forward_core _ _ _ _ _ E1) as [Hk _]. rewrite Hk.
    rewrite <- (IH _ _ _ _ E2).
    unfold apply_forward in E1. rewrite Hk in E1. cbn [bind] in E1. inversion E1; subst. reflexivity.
Qed.

(** outpoints the monitor wants watched while they are unspent *)
Definition tracked (cl : closing) : list outpoint :=
  (match c_our cl with Some (i, _) => [(c_txid cl, i)] | None => [] end)
  ++ map (fun v => (c_txid cl, v)) (htlc_idx cl) ++ slos cl.
Definition wanted (g : cfg) (k : core) : list outpoint :=
  finputs g ++ (match fst k with Some f => [f] | None => [] end)
  ++ (match snd k with Some cl => tracked cl | None => [] end).

Lemma in_wanted g k o : In o (wanted g k) <->
  In o (finputs g) \/ fst k = Some o \/ exists cl, snd k = Some cl /\ In o (tracked cl).
Proof.
  unfold wanted. rewrite !in_app_iff. split.
  - intros [H | [H | H]]; [left; exact H | right; left | right; right].
    + destruct (fst k); [destruct H as [<- | []]; reflexivity | destruct H].
    + destruct (snd k) as [cl|]; [exists cl; auto | destruct H].
  - intros [H | [H | [cl [H1 H2]]]]; [left; exact H | right; left | right; right].
    + rewrite H. left; reflexivity.
    + rewrite H1. exact H2.
Qed.

Lemma tracked_ids c1 c2 : c_txid c1 = c_txid c2 -> our_idx c1 = our_idx c2 -> htlc_idx c1 = htlc_idx c2 -> slos c1 = slos c2 ->
  tracked c1 = tracked c2.
Proof.
  unfold tracked, our_idx. intros -> H2 -> ->. f_equal.
  destruct (c_our c1) as [[a x]|], (c_our c2) as [[b y]|]; cbn in H2; try discriminate; [inversion H2; subst|]; reflexivity.
Qed.

Lemma tracked_new txid our h :
  tracked (new_closing txid our h) = (match our with Some i => [(txid, i)] | None => [] end) ++ map (fun i => (txid, i)) h.
Proof.
  unfold tracked, new_closing, htlc_idx, slos. cbn [c_our c_txid c_htlcs c_second map]. rewrite app_nil_r.
  f_equal; [destruct our; reflexivity|]. rewrite !map_map. cbn [fst]. reflexivity.
Qed.

Section Deltas.
Variable g : cfg.

Lemma ctxid_fwd k c k' : core_fwd k c = Ok k' -> snd k <> None ->
  (match c with UnilateralClose _ _ _ _ => False | _ => True end) -> ctxid_of k' = ctxid_of k.
Proof.
  intros Hf Hn Hc. unfold ctxid_of. destruct c; cbn [core_fwd] in Hf; try contradiction;
    try (inversion Hf; subst; reflexivity);
    unfold with_closing in Hf; destruct (snd k) as [cl|]; try congruence;
    apply bind_ok in Hf; destruct Hf as [cl' [Es Hf]]; inversion Hf; subst; cbn [snd].
  - destruct (set_our_ids _ _ _ _ Es) as (A1 & _). exact A1.
  - apply bind_ok in Es. destruct Es as [clh [Es Ep]]. inversion Ep; subst. destruct (set_htlc_ids _ _ _ _ Es) as (A1 & _). exact A1.
  - destruct (set_second_ids _ _ _ _ Es) as (A1 & _). exact A1.
Qed.

(** one change: its removes are wanted and in the block, its adds fresh, what is wanted afterwards was wanted or is added *)
Lemma delta_step ins tids k c k' :
  cok g ins tids k c -> core_fwd k c = Ok k' ->
  (forall a, In a (change_adds k' c) -> In (fst a) tids /\ ~ In a (finputs g))
  /\ (forall r, In r (change_removes k' c) -> In r ins /\ In r (wanted g k))
  /\ (forall o, In o (wanted g k') -> In o (wanted g k) \/ In o (change_adds k' c)).
Proof.
  intros (Hp & Hj & Hi & Ha) Hf. split; [exact Ha|].
  destruct c; cbn [cpre cjust cin core_fwd change_removes change_adds] in *.
  - (* FundingConfirmed *)
    inversion Hf; subst. split; [intros r []|]. intros x Hx. apply in_wanted in Hx. cbn [fst snd] in Hx.
    destruct Hx as [Hx | [Hx | Hx]]; [left; apply in_wanted; auto | right; inversion Hx; left; reflexivity | left; apply in_wanted; auto].
  - inversion Hf; subst. split; [|intros x Hx; left; exact Hx].
    intros r [<- | []]. split; [exact Hi | apply in_wanted; left; exact Hj].
  - (* UnilateralClose *)
    inversion Hf; subst. split.
    + intros r [<- | []]. split; [exact Hi | apply in_wanted; right; left; exact Hj].
    + intros x Hx. apply in_wanted in Hx. cbn [fst snd] in Hx.
      destruct Hx as [Hx | [Hx | [cl [Hx1 Hx2]]]]; [left; apply in_wanted; auto | left; apply in_wanted; auto | right].
      inversion Hx1; subst cl. rewrite tracked_new in Hx2. exact Hx2.
  - inversion Hf; subst. split; [|intros x Hx; left; exact Hx].
    intros r [<- | []]. split; [exact Hi | apply in_wanted; right; left; exact Hj].
  - (* OurOutputSpent *)
    destruct Hp as [cl [Hcl Ho]].
    assert (Hct : ctxid_of k' = ctxid_of k) by (apply (ctxid_fwd k (OurOutputSpent vout) k'); [exact Hf | rewrite Hcl; discriminate | exact I]).
    unfold with_closing in Hf. rewrite Hcl in Hf. apply bind_ok in Hf. destruct Hf as [cl' [Es Hf]]. inversion Hf; subst.
    destruct (set_our_ids _ _ _ _ Es) as (A1 & A2 & A3 & A4). split.
    + intros r [<- | []]. rewrite Hct. split; [exact Hi|]. apply in_wanted. right; right. exists cl. split; [exact Hcl|].
      unfold ctxid_of. rewrite Hcl. unfold tracked. rewrite Ho. left; reflexivity.
    + intros x Hx. left. apply in_wanted in Hx. apply in_wanted. cbn [fst snd] in Hx.
      destruct Hx as [Hx | [Hx | [c0 [Hx1 Hx2]]]]; auto. inversion Hx1; subst c0. right; right. exists cl. split; [exact Hcl|].
      rewrite <- (tracked_ids _ _ A1 A2 A3 A4). exact Hx2.
  - (* HTLCOutputSpent *)
    destruct Hp as [cl [Hcl [Hh Hn]]].
    assert (Hct : ctxid_of k' = ctxid_of k) by (apply (ctxid_fwd k (HTLCOutputSpent vout slo) k'); [exact Hf | rewrite Hcl; discriminate | exact I]).
    unfold with_closing in Hf. rewrite Hcl in Hf. apply bind_ok in Hf. destruct Hf as [cl' [Es Hf]]. inversion Hf; subst.
    apply bind_ok in Es. destruct Es as [clh [Es Ep]]. inversion Ep; subst. clear Ep.
    destruct (set_htlc_ids _ _ _ _ Es) as (A1 & A2 & A3 & A4). split.
    + intros r [<- | []]. rewrite Hct. split; [exact Hi|]. apply in_wanted. right; right. exists cl. split; [exact Hcl|].
      unfold ctxid_of. rewrite Hcl. unfold tracked. apply in_or_app. right. apply in_or_app. left.
      apply in_map. apply hflag_in. rewrite Hh. discriminate.
    + intros x Hx. apply in_wanted in Hx. cbn [fst snd] in Hx.
      destruct Hx as [Hx | [Hx | [c0 [Hx1 Hx2]]]]; [left; apply in_wanted; auto | left; apply in_wanted; auto |].
      inversion Hx1; subst c0. unfold tracked, push_second, slos, our_idx, htlc_idx in *. cbn [c_our c_txid c_htlcs c_second] in Hx2.
      rewrite map_app in Hx2. cbn [map fst] in Hx2. rewrite A1, A3, A4 in Hx2.
      assert (Hour : c_our clh = c_our cl).
      { unfold set_htlc in Es. destruct (set_first _ _ (c_htlcs cl)); [|discriminate]. inversion Es; reflexivity. }
      rewrite Hour in Hx2. rewrite !in_app_iff in Hx2. cbn [In] in Hx2.
      destruct Hx2 as [Hx2 | [Hx2 | [Hx2 | [<- | []]]]].
      * left. apply in_wanted. right; right. exists cl. split; [exact Hcl|]. unfold tracked, htlc_idx, slos. rewrite !in_app_iff. tauto.
      * left. apply in_wanted. right; right. exists cl. split; [exact Hcl|]. unfold tracked, htlc_idx, slos. rewrite !in_app_iff. tauto.
      * left. apply in_wanted. right; right. exists cl. split; [exact Hcl|]. unfold tracked, htlc_idx, slos. rewrite !in_app_iff. tauto.
      * right. left; reflexivity.
  - (* SecondLevelSpent *)
    destruct Hp as [cl [Hcl Hs]].
    unfold with_closing in Hf. rewrite Hcl in Hf. apply bind_ok in Hf. destruct Hf as [cl' [Es Hf]]. inversion Hf; subst.
    destruct (set_second_ids _ _ _ _ Es) as (A1 & A2 & A3 & A4). split.
    + intros r [<- | []]. split; [exact Hi|]. apply in_wanted. right; right. exists cl. split; [exact Hcl|].
      unfold tracked. apply in_or_app. right. apply in_or_app. right. apply sflag_in. rewrite Hs. discriminate.
    + intros x Hx. left. apply in_wanted in Hx. apply in_wanted. cbn [fst snd] in Hx.
      destruct Hx as [Hx | [Hx | [c0 [Hx1 Hx2]]]]; auto. inversion Hx1; subst c0. right; right. exists cl. split; [exact Hcl|].
      rewrite <- (tracked_ids _ _ A1 A2 A3 A4). exact Hx2.
Qed.

Lemma deltas_spec ins tids cs : forall k k',
  chain_ok g ins tids k cs -> core_fwds k cs = Ok k' ->
  let '(A, R) := cdeltas k cs in
  (forall a, In a A -> In (fst a) tids /\ ~ In a (finputs g))
  /\ (forall r, In r R -> In r ins /\ (In r (wanted g k) \/ In r A))
  /\ (forall o, In o (wanted g k') -> In o (wanted g k) \/ In o A).
Proof.
  induction cs as [|c r IH]; intros k k' Hc Hf; cbn [chain_ok core_fwds cdeltas] in *.
  - inversion Hf; subst. split; [intros ? []|]. split; [intros ? []|]. intros o Ho. left; exact Ho.
  - destruct Hc as [Hc Hr]. apply bind_ok in Hf. destruct Hf as [k1 [E Hf]]. rewrite E.
    destruct (delta_step _ _ _ _ _ Hc E) as (D1 & D2 & D3).
    specialize (IH k1 k' (Hr _ E) Hf). destruct (cdeltas k1 r) as [A R]. destruct IH as (I1 & I2 & I3).
    split; [|split].
    + intros a Ha. apply in_app_or in Ha. destruct Ha as [Ha | Ha]; [apply D1; exact Ha | apply I1; exact Ha].
    + intros x Hx. apply in_app_or in Hx. destruct Hx as [Hx | Hx].
      * destruct (D2 x Hx) as [G1 G2]. split; [exact G1 | left; exact G2].
      * destruct (I2 x Hx) as [G1 [G2 | G2]]; split; auto.
        -- destruct (D3 x G2) as [G3 | G3]; [left; exact G3 | right; apply in_or_app; left; exact G3].
        -- right. apply in_or_app. right. exact G2.
    + intros o Ho. destruct (I3 o Ho) as [G | G].
      * destruct (D3 o G) as [G3 | G3]; [left; exact G3 | right; apply in_or_app; left; exact G3].
      * right. apply in_or_app. right. exact G.
Qed.

End Deltas.

(** * auxiliary facts *)
Lemma spent_after_incl b : forall S, incl S (spent_after S b) /\ incl (ins_of b) (spent_after S b).
Proof.
  unfold spent_after, ins_of. induction b as [|t r IH]; intros S; cbn [fold_left map concat].
  - split; [apply incl_refl | intros x []].
  - destruct (IH (tx_ins t ++ S)) as [H1 H2]. split.
    + intros x Hx. apply H1. apply in_or_app. right. exact Hx.
    + intros x Hx. apply in_app_or in Hx. destruct Hx as [Hx | Hx]; [apply H1; apply in_or_app; left; exact Hx | apply H2; exact Hx].
Qed.
Lemma tids_after_incl b : forall T, incl T (tids_after T b) /\ incl (tids_of b) (tids_after T b).
Proof.
  unfold tids_after, tids_of. induction b as [|t r IH]; intros T; cbn [fold_left map].
  - split; [apply incl_refl | intros x []].
  - destruct (IH (tx_id t :: T)) as [H1 H2]. split.
    + intros x Hx. apply H1. right. exact Hx.
    + intros x [<- | Hx]; [apply H1; left; reflexivity | apply H2; exact Hx].
Qed.

Lemma txs_ok_in g b : forall S T t, txs_ok g S T b = true -> In t b ->
  exists S1 T1, incl S S1 /\ incl T T1 /\ txhyp g S1 T1 t.
Proof.
  induction b as [|t0 r IH]; intros S T t H Ht; [destruct Ht|].
  cbn [txs_ok] in H. apply andb_true_iff in H. destruct H as [H1 H2]. destruct Ht as [<- | Ht].
  - exists S, T. split; [apply incl_refl|]. split; [apply incl_refl | apply tx_ok_hyp; exact H1].
  - destruct (IH _ _ _ H2 Ht) as [S1 [T1 (A1 & A2 & A3)]]. exists S1, T1. split; [|split; [|exact A3]].
    + intros x Hx. apply A1. apply in_or_app. right. exact Hx.
    + intros x Hx. apply A2. right. exact Hx.
Qed.
Lemma txs_ok_ins_fresh g b S T x : txs_ok g S T b = true -> In x (ins_of b) -> ~ In x S.
Proof.
  intros H Hx HS. unfold ins_of in Hx. apply in_concat in Hx. destruct Hx as [l [Hl Hx]].
  apply in_map_iff in Hl. destruct Hl as [t [<- Ht]].
  destruct (txs_ok_in _ _ _ _ _ H Ht) as [S1 [T1 (A1 & _ & A3)]]. apply (h_fresh _ _ _ _ A3 x Hx). apply A1. exact HS.
Qed.

Section Chain.
Variable g : cfg.
Notation F := (fund g).

Lemma chain_ok_in ins tids cs : forall k k' c,
  chain_ok g ins tids k cs -> core_fwds k cs = Ok k' -> In c cs ->
  exists kc, cok g ins tids kc c /\ (fst k = None \/ fst k = Some F -> (forall o, In (FundingConfirmed o) cs -> o = F) -> fst kc = None \/ fst kc = Some F).
Proof.
  induction cs as [|c0 r IH]; intros k k' c Hc Hf Hin; [destruct Hin|].
  cbn [chain_ok core_fwds] in *. destruct Hc as [Hc Hr]. apply bind_ok in Hf. destruct Hf as [k1 [E Hf]].
  destruct Hin as [<- | Hin].
  - exists k. split; [exact Hc | intros H _; exact H].
  - destruct (IH _ _ _ (Hr _ E) Hf Hin) as [kc [G1 G2]]. exists kc. split; [exact G1|].
    intros H0 Hfc. apply G2; [|intros o Ho; apply Hfc; right; exact Ho].
    destruct c0; cbn [core_fwd] in E; try (inversion E; subst; exact H0);
      try (unfold with_closing in E; destruct (snd k); [|discriminate]; apply bind_ok in E; destruct E as [? [_ E]]; inversion E; subst; exact H0).
    inversion E; subst. right. cbn [fst]. f_equal. apply Hfc. left; reflexivity.
Qed.

End Chain.

(** swept outputs stay swept along a block *)
Definition csw (k : core) : bool := match snd k with Some c => all_spent c | None => false end.
Definition osw (k : core) : bool :=
  match snd k with Some c => match c_our c with Some (_, b) => b | None => true end | None => false end.

Lemma forallb_find {A} (p q : A -> bool) l x : forallb q l = true -> find p l = Some x -> q x = true.
Proof. intros H Hf. apply find_some in Hf. rewrite forallb_forall in H. apply H. tauto. Qed.

Lemma csw_step k c k' : cpre k c -> core_fwd k c = Ok k' -> csw k = true -> snd k' = snd k.
Proof.
  intros Hp Hf Hs. unfold csw in Hs. destruct (snd k) as [cl|] eqn:Ecl; [|discriminate].
  unfold all_spent in Hs. apply andb_true_iff in Hs. destruct Hs as [Hs Hs3]. apply andb_true_iff in Hs. destruct Hs as [Hs1 Hs2].
  destruct c; cbn [cpre core_fwd] in *; try (inversion Hf; subst; cbn [snd]; congruence).
  - destruct Hp as [c0 [E Ho]]. rewrite Ecl in E. inversion E; subst c0. rewrite Ho in Hs1. discriminate.
  - destruct Hp as [c0 [E [Hh _]]]. rewrite Ecl in E. inversion E; subst c0. unfold hflag in Hh.
    destruct (find (fun p => fst p =? vout) (c_htlcs cl)) as [x|] eqn:Ef; [|discriminate].
    cbn [option_map] in Hh. rewrite (forallb_find _ _ _ _ Hs2 Ef) in Hh. discriminate.
  - destruct Hp as [c0 [E Hh]]. rewrite Ecl in E. inversion E; subst c0. unfold sflag in Hh.
    destruct (find (fun p => op_eqb (fst p) o) (c_second cl)) as [x|] eqn:Ef; [|discriminate].
    cbn [option_map] in Hh. rewrite (forallb_find _ _ _ _ Hs3 Ef) in Hh. discriminate.
Qed.
Lemma csw_chain cs : forall k k', chain_cpre k cs -> core_fwds k cs = Ok k' -> csw k = true -> csw k' = true.
Proof.
  induction cs as [|c r IH]; intros k k' Hc Hf Hs; cbn [chain_cpre core_fwds] in *.
  - inversion Hf; subst. exact Hs.
  - destruct Hc as [Hp Hr]. apply bind_ok in Hf. destruct Hf as [k1 [E Hf]].
    apply (IH k1 k' (Hr _ E) Hf). unfold csw in *. rewrite (csw_step _ _ _ Hp E Hs). exact Hs.
Qed.
Lemma osw_step k c k' : cpre k c -> core_fwd k c = Ok k' -> osw k = true -> osw k' = true.
Proof.
  intros Hp Hf Hs. unfold osw in *. destruct (snd k) as [cl|] eqn:Ecl; [|discriminate].
  destruct c; cbn [cpre core_fwd] in *; try (inversion Hf; subst; cbn [snd]; rewrite ?Ecl; congruence).
  - destruct Hp as [c0 [E Ho]]. rewrite Ecl in E. inversion E; subst c0. rewrite Ho in Hs. discriminate.
  - unfold with_closing in Hf. rewrite Ecl in Hf. apply bind_ok in Hf. destruct Hf as [cl' [Es Hf]]. inversion Hf; subst. cbn [snd].
    apply bind_ok in Es. destruct Es as [clh [Es Ep]]. inversion Ep; subst. unfold push_second; cbn [c_our].
    unfold set_htlc in Es. destruct (set_first _ _ (c_htlcs cl)); [|discriminate]. inversion Es; subst. exact Hs.
  - unfold with_closing in Hf. rewrite Ecl in Hf. apply bind_ok in Hf. destruct Hf as [cl' [Es Hf]]. inversion Hf; subst. cbn [snd].
    unfold set_second in Es. destruct (set_first _ _ (c_second cl)); [|discriminate]. inversion Es; subst. exact Hs.
Qed.
Lemma osw_chain cs : forall k k', chain_cpre k cs -> core_fwds k cs = Ok k' -> osw k = true -> osw k' = true.
Proof.
  induction cs as [|c r IH]; intros k k' Hc Hf Hs; cbn [chain_cpre core_fwds] in *.
  - inversion Hf; subst. exact Hs.
  - destruct Hc as [Hp Hr]. apply bind_ok in Hf. destruct Hf as [k1 [E Hf]].
    apply (IH k1 k' (Hr _ E) Hf). eapply osw_step; eassumption.
Qed.

Lemma state_ext (a b : state) :
  height a = height b -> funding_height a = funding_height b -> fo a = fo b -> dsh a = dsh b ->
  mutual_h a = mutual_h b -> unilateral_h a = unilateral_h b -> clo a = clo b ->
  closing_swept_h a = closing_swept_h b -> our_swept_h a = our_swept_h b -> saw_block a = saw_block b -> a = b.
Proof. destruct a, b; cbn; intros; subst; reflexivity. Qed.

Lemma existsb_in {A} (p : A -> bool) l : existsb p l = true -> exists x, In x l /\ p x = true.
Proof. apply existsb_exists. Qed.

Lemma dfw_some_inv h cs : forall d x,
  fold_left (fun d c => dfw1 h c d) cs d = Some x -> d = Some x \/ (x = h /\ existsb is_fis cs = true).
Proof.
  induction cs as [|c r IH]; intros d x H; cbn [fold_left existsb] in *; [left; exact H|].
  destruct (IH _ _ H) as [E | [E1 E2]].
  - destruct c; cbn [dfw1 is_fis orb] in *; try (left; exact E); [discriminate|].
    destruct d as [y|]; [left; exact E | right; inversion E; subst; auto].
  - right. split; [exact E1|]. rewrite E2. apply orb_true_r.
Qed.
Lemma mfw_some_inv h cs : forall m,
  fold_left (fun m c => mfw1 h c m) cs m <> None -> m <> None \/ existsb is_mutual cs = true.
Proof.
  induction cs as [|c r IH]; intros m H; cbn [fold_left existsb] in *; [left; exact H|].
  destruct (IH _ H) as [E | E].
  - destruct c; cbn [mfw1 is_mutual orb] in *; try (left; exact E). right; reflexivity.
  - right. rewrite E. apply orb_true_r.
Qed.

Section Main.
Variable g : cfg.
Notation F := (fund g).

(** the invariant of a monitor that has connected a consistent chain spending [S], with ids [T] *)
Record MInv (S : list outpoint) (T : list N) (m : mon) : Prop := {
  M_k : KInv g S T (core_of (m_state m));
  M_loc : loc_inv (m_state m);
  M_dsh : forall x, dsh (m_state m) = Some x ->
          x <= height (m_state m) /\ exists i, In i (finputs g) /\ In i S;
  M_mut : mutual_h (m_state m) <> None -> In F S;
  M_swc : is_closing_swept (m_state m) = false -> closing_swept_h (m_state m) = None;
  M_swo : is_our_swept (m_state m) = false -> our_swept_h (m_state m) = None;
  M_Ws : osorted (m_watches m);
  M_Ss : osorted (m_seen m);
  M_W : forall w, In w (m_watches m) -> In w (finputs g) \/ In (fst w) T;
  M_want : forall o, In o (wanted g (core_of (m_state m))) -> ~ In o S -> In o (m_watches m);
  M_seen : forall o, In o (m_seen m) -> In o S
}.

Definition bump (s : state) : state := set_height (set_saw s true) (height s + 1).
Definition sweep_add (s1 s2 : state) : state :=
  let s3 := if negb (is_closing_swept s1) && is_closing_swept s2 then set_csh s2 (Some (height s2)) else s2 in
  if negb (is_our_swept s1) && is_our_swept s3 then set_osh s3 (Some (height s3)) else s3.

Lemma add_block_inv s b s4 A R : add_block g s b = Ok (s4, A, R) ->
  exists chs s2, decode_block g (core_of s) b = Ok chs /\ height s < U32MAX
    /\ apply_all apply_forward (bump s) chs = Ok (s2, A, R) /\ s4 = sweep_add (bump s) s2.
Proof.
  unfold add_block. intros H. apply bind_ok in H. destruct H as [chs [E H]].
  destruct (U32MAX <=? height s) eqn:Eh; [discriminate|]. apply N.leb_gt in Eh.
  apply bind_ok in H. destruct H as [[[s2 A'] R'] [E2 H]]. inversion H; subst.
  exists chs, s2. repeat split; auto.
Qed.

Lemma sweep_add_fields s1 s2 :
  let s4 := sweep_add s1 s2 in
  height s4 = height s2 /\ funding_height s4 = funding_height s2 /\ fo s4 = fo s2 /\ dsh s4 = dsh s2
  /\ mutual_h s4 = mutual_h s2 /\ unilateral_h s4 = unilateral_h s2 /\ clo s4 = clo s2 /\ saw_block s4 = saw_block s2
  /\ closing_swept_h s4 = (if negb (is_closing_swept s1) && is_closing_swept s2 then Some (height s2) else closing_swept_h s2)
  /\ our_swept_h s4 = (if negb (is_our_swept s1) && is_our_swept s2 then Some (height s2) else our_swept_h s2).
Proof.
  unfold sweep_add. destruct (negb (is_closing_swept s1) && is_closing_swept s2);
    [change (is_our_swept (set_csh s2 (Some (height s2)))) with (is_our_swept s2)|];
    destruct (negb (is_our_swept s1) && is_our_swept s2); cbn; repeat split; reflexivity.
Qed.

Lemma bump_fields s :
  core_of (bump s) = core_of s /\ height (bump s) = height s + 1 /\ dsh (bump s) = dsh s /\ mutual_h (bump s) = mutual_h s
  /\ funding_height (bump s) = funding_height s /\ unilateral_h (bump s) = unilateral_h s
  /\ closing_swept_h (bump s) = closing_swept_h s /\ our_swept_h (bump s) = our_swept_h s /\ saw_block (bump s) = true
  /\ is_closing_swept (bump s) = is_closing_swept s /\ is_our_swept (bump s) = is_our_swept s.
Proof. unfold bump. cbn. repeat split; reflexivity. Qed.

Lemma is_closing_swept_csw s : is_closing_swept s = csw (core_of s).
Proof. reflexivity. Qed.
Lemma is_our_swept_osw s : is_our_swept s = osw (core_of s).
Proof. reflexivity. Qed.

(** everything that connecting a consistent block gives us *)
Lemma add_setup S T m b m' :
  MInv S T m -> txs_ok g S T b = true -> madd g m b = Ok m' ->
  exists chs kx s2 A R,
    steps g (core_of (m_state m)) b chs kx
    /\ chain_ok g (ins_of b) (tids_of b) (core_of (m_state m)) chs
    /\ KInv g (spent_after S b) (tids_after T b) kx
    /\ height (m_state m) < U32MAX
    /\ apply_all apply_forward (bump (m_state m)) chs = Ok (s2, A, R)
    /\ core_of s2 = kx
    /\ m' = mkmon (sweep_add (bump (m_state m)) s2) (odiff (ounion (m_watches m) A) R) (ounion (m_seen m) R).
Proof.
  intros HM Hok H. unfold madd in H. apply bind_ok in H. destruct H as [[[s4 A] R] [E H]]. inversion H; subst. clear H.
  destruct (add_block_inv _ _ _ _ _ E) as [chs [s2 (Hd & Hh & Ha & Hs4)]].
  apply decode_block_ok in Hd. destruct Hd as [kx Hst].
  destruct (block_spec g b S T _ _ _ (M_k _ _ _ HM) Hok Hst) as [Hch HK].
  exists chs, kx, s2, A, R.
  split; [exact Hst|]. split; [exact Hch|]. split; [exact HK|]. split; [exact Hh|]. split; [exact Ha|]. split.
  - destruct (apply_all_fwd_core _ _ _ _ _ Ha) as [Hc _].
    destruct (bump_fields (m_state m)) as (B1 & _). rewrite B1 in Hc. rewrite (steps_fwds _ _ _ _ _ Hst) in Hc. inversion Hc; reflexivity.
  - rewrite Hs4. reflexivity.
Qed.


Lemma loc_inv_bump s : loc_inv s -> loc_inv (bump s).
Proof. unfold loc_inv, bump. cbn. tauto. Qed.

Theorem add_preserves S T m b m' :
  MInv S T m -> txs_ok g S T b = true -> madd g m b = Ok m' ->
  MInv (spent_after S b) (tids_after T b) m'.
Proof.
  intros HM Hok Hadd.
  destruct (add_setup _ _ _ _ _ HM Hok Hadd) as [chs [kx [s2 [A [R (Hst & Hch & HK & Hh & Ha & Hkx & Hm')]]]]].
  set (s := m_state m) in *. set (s1 := bump s) in *.
  destruct (bump_fields s) as (B1 & B2 & B3 & B4 & B5 & B6 & B7 & B8 & B9 & B10 & B11). fold s1 in B1, B2, B3, B4, B5, B6, B7, B8, B9, B10, B11.
  pose proof (steps_fwds _ _ _ _ _ Hst) as Hfw.
  destruct (spent_after_incl b S) as [HS1 HS2]. destruct (tids_after_incl b T) as [HT1 HT2].
  (* the deltas *)
  pose proof (apply_all_fwd_deltas _ _ _ _ _ Ha) as Hdel. rewrite B1 in Hdel.
  pose proof (deltas_spec g _ _ chs _ _ Hch Hfw) as HD. rewrite <- Hdel in HD. destruct HD as (D1 & D2 & D3).
  (* the state after the changes *)
  destruct (fwd_all_proj _ _ _ _ _ Ha) as (P1 & P2 & P3). destruct (fwd_all_sw _ _ _ _ _ Ha) as (P4 & P5 & P6).
  destruct (fwd_bwd_all repaired chs eq_refl s1) as [s2' [A' [R' (Ha' & Hl2 & _)]]].
  { rewrite B1. eapply chain_ok_cpre. exact Hch. }
  { apply loc_inv_bump. exact (M_loc _ _ _ HM). }
  rewrite Ha in Ha'. inversion Ha'; subst s2' A' R'. clear Ha'.
  destruct (sweep_add_fields s1 s2) as (F1 & F2 & F3 & F4 & F5 & F6 & F7 & F8 & F9 & F10).
  set (s4 := sweep_add s1 s2) in *.
  assert (Hc4 : core_of s4 = kx) by (unfold core_of; rewrite F3, F7; exact Hkx).
  assert (Hfo0 : fst (core_of s) = None \/ fst (core_of s) = Some F).
  { destruct (K_fo _ _ _ _ (M_k _ _ _ HM)) as [H | [H _]]; auto. }
  assert (Hfc : forall o, In (FundingConfirmed o) chs -> o = F) by (intros o Ho; eapply steps_fc; eassumption).
  rewrite Hm'. constructor; cbn [m_state m_watches m_seen].
  - rewrite Hc4. exact HK.
  - unfold loc_inv in *. rewrite F2, F3, F6, F7. exact Hl2.
  - intros x Hx. rewrite F4, P1, B3, B2 in Hx. rewrite F1, P3, B2.
    destruct (dfw_some_inv _ _ _ _ Hx) as [E | [E1 E2]].
    + destruct (M_dsh _ _ _ HM x E) as [G1 [i [G2 G3]]]. fold s in G1. split; [lia|]. exists i. split; [exact G2 | apply HS1; exact G3].
    + split; [lia|]. apply existsb_in in E2. destruct E2 as [c [Hc Hfis]]. destruct c; try discriminate.
      destruct (chain_ok_in g _ _ _ _ _ _ Hch Hfw Hc) as [kc [(_ & Hj & Hi & _) _]]. cbn [cjust cin] in Hj, Hi.
      exists o. split; [exact Hj | apply HS2; exact Hi].
  - intros Hn. rewrite F5, P2, B4 in Hn. destruct (mfw_some_inv _ _ _ Hn) as [E | E].
    + apply HS1. apply (M_mut _ _ _ HM). exact E.
    + apply existsb_in in E. destruct E as [c [Hc Hmu]]. destruct c; try discriminate.
      destruct (chain_ok_in g _ _ _ _ _ _ Hch Hfw Hc) as [kc [(_ & Hj & Hi & _) Hfo]]. cbn [cjust cin] in Hj, Hi.
      destruct (Hfo Hfo0 Hfc) as [E | E]; [congruence|]. rewrite Hj in E. inversion E; subst fo. apply HS2. exact Hi.
  - intros Hq. rewrite is_closing_swept_csw, Hc4 in Hq. rewrite F9.
    rewrite (is_closing_swept_csw s2), Hkx, Hq, andb_false_r, P4, B7.
    apply (M_swc _ _ _ HM). fold s. rewrite is_closing_swept_csw.
    destruct (csw (core_of s)) eqn:Ep; [|reflexivity].
    rewrite (csw_chain _ _ _ (chain_ok_cpre g _ _ _ _ Hch) Hfw Ep) in Hq. discriminate.
  - intros Hq. rewrite is_our_swept_osw, Hc4 in Hq. rewrite F10.
    rewrite (is_our_swept_osw s2), Hkx, Hq, andb_false_r, P5, B8.
    apply (M_swo _ _ _ HM). fold s. rewrite is_our_swept_osw.
    destruct (osw (core_of s)) eqn:Ep; [|reflexivity].
    rewrite (osw_chain _ _ _ (chain_ok_cpre g _ _ _ _ Hch) Hfw Ep) in Hq. discriminate.
  - apply odiff_sorted, ounion_sorted. exact (M_Ws _ _ _ HM).
  - apply ounion_sorted. exact (M_Ss _ _ _ HM).
  - intros w Hw. apply odiff_in in Hw. destruct Hw as [Hw _]. apply ounion_in in Hw. destruct Hw as [Hw | Hw].
    + destruct (M_W _ _ _ HM w Hw) as [G | G]; [left; exact G | right; apply HT1; exact G].
    + right. apply HT2. apply (D1 w Hw).
  - intros o Ho Hns. rewrite Hc4 in Ho. apply odiff_in. split.
    + apply ounion_in. destruct (D3 o Ho) as [G | G]; [left | right; exact G].
      apply (M_want _ _ _ HM o G). intros Hs. apply Hns. apply HS1. exact Hs.
    + intros Hr. apply Hns. apply HS2. apply (D2 o Hr).
  - intros o Ho. apply ounion_in in Ho. destruct Ho as [Ho | Ho]; [apply HS1; apply (M_seen _ _ _ HM); exact Ho | apply HS2; apply (D2 o Ho)].
Qed.


Definition sweep_rm (s0 s' : state) : state :=
  let s3 := if is_closing_swept s0 && negb (is_closing_swept s') then set_csh s' None else s' in
  if is_our_swept s0 && negb (is_our_swept s3) then set_osh s3 None else s3.

Lemma sweep_rm_fields s0 s' :
  let s4 := sweep_rm s0 s' in
  height s4 = height s' /\ funding_height s4 = funding_height s' /\ fo s4 = fo s' /\ dsh s4 = dsh s'
  /\ mutual_h s4 = mutual_h s' /\ unilateral_h s4 = unilateral_h s' /\ clo s4 = clo s' /\ saw_block s4 = saw_block s'
  /\ closing_swept_h s4 = (if is_closing_swept s0 && negb (is_closing_swept s') then None else closing_swept_h s')
  /\ our_swept_h s4 = (if is_our_swept s0 && negb (is_our_swept s') then None else our_swept_h s').
Proof.
  unfold sweep_rm. destruct (is_closing_swept s0 && negb (is_closing_swept s'));
    [change (is_our_swept (set_csh s' None)) with (is_our_swept s')|];
    destruct (is_our_swept s0 && negb (is_our_swept s')); cbn; repeat split; reflexivity.
Qed.

Lemma remove_block_ok s b chs s' A R :
  decode_block g (core_of s) b = Ok chs ->
  apply_all (apply_backward repaired) (set_saw s true) (rev chs) = Ok (s', A, R) ->
  height s' <> 0 ->
  remove_block repaired g s b = Ok (set_height (sweep_rm (set_saw s true) s') (height s' - 1), A, R).
Proof.
  intros Hd Ha Hh. unfold remove_block. rewrite Hd. cbn [bind rev_order repaired]. rewrite Ha. cbn [bind].
  fold (sweep_rm (set_saw s true) s'). destruct (sweep_rm_fields (set_saw s true) s') as (F1 & _).
  rewrite F1. apply N.eqb_neq in Hh. rewrite Hh. reflexivity.
Qed.

Theorem add_remove S T m b m' :
  MInv S T m -> txs_ok g S T b = true -> madd g m b = Ok m' ->
  mremove repaired g m' b = Ok (norm m).
Proof.
  intros HM Hok Hadd.
  destruct (add_setup _ _ _ _ _ HM Hok Hadd) as [chs [kx [s2 [A [R (Hst & Hch & HK & Hh & Ha & Hkx & Hm')]]]]].
  set (s := m_state m) in *. set (s1 := bump s) in *.
  destruct (bump_fields s) as (B1 & B2 & B3 & B4 & B5 & B6 & B7 & B8 & B9 & B10 & B11). fold s1 in B1, B2, B3, B4, B5, B6, B7, B8, B9, B10, B11.
  pose proof (steps_fwds _ _ _ _ _ Hst) as Hfw.
  pose proof (chain_ok_cpre g _ _ _ _ Hch) as Hcp.
  assert (Hfc : forall o, In (FundingConfirmed o) chs -> o = F) by (intros o Ho; eapply steps_fc; eassumption).
  (* the deltas *)
  pose proof (apply_all_fwd_deltas _ _ _ _ _ Ha) as Hdel. rewrite B1 in Hdel.
  pose proof (deltas_spec g _ _ chs _ _ Hch Hfw) as HD. rewrite <- Hdel in HD. destruct HD as (D1 & D2 & D3).
  destruct (fwd_all_proj _ _ _ _ _ Ha) as (P1 & P2 & P3). destruct (fwd_all_sw _ _ _ _ _ Ha) as (P4 & P5 & P6).
  destruct (fwd_bwd_all repaired chs eq_refl s1) as [s2' [A0 [R0 (Ha' & Hl2 & Hb)]]].
  { rewrite B1. exact Hcp. }
  { apply loc_inv_bump. exact (M_loc _ _ _ HM). }
  rewrite Ha in Ha'. inversion Ha'; subst s2' A0 R0. clear Ha'.
  destruct (sweep_add_fields s1 s2) as (F1 & F2 & F3 & F4 & F5 & F6 & F7 & F8 & F9 & F10).
  set (s4 := sweep_add s1 s2) in *.
  assert (Hc4 : core_of s4 = kx) by (unfold core_of; rewrite F3, F7; exact Hkx).
  (* the block decodes to the same changes on the state after it *)
  assert (Hdec : decode_block g (core_of s4) b = Ok chs).
  { rewrite Hc4. apply decode_block_ok.
    eapply decode_stable; [exact Hst | eapply txs_ok_fresh; exact Hok | apply sim_init; assumption]. }
  (* undo *)
  set (s0 := set_saw s4 true).
  assert (He0 : eqm s0 s2).
  { unfold eqm, s0. cbn. rewrite F1, F2, F3, F6, F7, P6, B9. repeat split; reflexivity. }
  destruct (Hb s0 He0) as [s' [A' [R' (Hbw & (E1 & E2 & E3 & E4 & E5 & E6) & HA' & HR')]]].
  destruct (bwd_all_proj _ _ _ _ _ _ Hbw) as (Q1 & Q2 & Q3). destruct (bwd_all_sw _ _ _ _ _ _ Hbw) as (Q4 & Q5).
  assert (Hh0 : height s0 = height s + 1) by (unfold s0; cbn; rewrite F1, P3, B2; reflexivity).
  assert (Hhs' : height s' <> 0) by (rewrite E1, B2; lia).
  unfold mremove. rewrite Hm'. cbn [m_state m_watches m_seen]. fold s4.
  rewrite (remove_block_ok s4 b chs s' A' R' Hdec Hbw Hhs'). cbn [bind]. unfold norm. fold s.
  destruct (sweep_rm_fields s0 s') as (G1 & G2 & G3 & G4 & G5 & G6 & G7 & G8 & G9 & G10). fold s0.
  f_equal. f_equal.
  - (* the state *)
    apply state_ext; cbn [height funding_height fo dsh mutual_h unilateral_h clo closing_swept_h our_swept_h saw_block set_height set_saw].
    + rewrite E1, B2. lia.
    + rewrite G2, E2, B5. reflexivity.
    + rewrite G3, E3. destruct B1 as []. reflexivity.
    + (* double-spend height *)
      rewrite G4, Q1. unfold s0 at 2. cbn [dsh set_saw]. rewrite F4, P1, B3, Hh0, B2.
      apply dsh_undo.
      * intros E. destruct (M_dsh _ _ _ HM _ E) as [G _]. fold s in G. lia.
      * intros Efc. apply existsb_in in Efc. destruct Efc as [c [Hc Hisfc]]. destruct c; try discriminate.
        destruct (dsh s) as [x|] eqn:Ed; [|reflexivity]. exfalso.
        destruct (M_dsh _ _ _ HM x Ed) as [_ [i [Hi1 Hi2]]].
        destruct (steps_tid _ _ _ _ _ _ (fst o) Hst Hc eq_refl) as [t [Ht Etid]].
        destruct (txs_ok_in _ _ _ _ _ Hok Ht) as [S1 [T1 (I1 & _ & I3)]].
        pose proof (Hfc o Hc) as Eo. subst o. cbn [fst fund] in Etid.
        apply (h_fresh _ _ _ _ I3 i); [apply (h_fund _ _ _ _ I3); [symmetry; exact Etid | exact Hi1] | apply I1; exact Hi2].
    + (* mutual close height *)
      rewrite G5, Q2. unfold s0. cbn [mutual_h set_saw]. rewrite F5, P2, B4.
      apply mutual_undo. intros Em. apply existsb_in in Em. destruct Em as [c [Hc Hmu]]. destruct c; try discriminate.
      destruct (mutual_h s) eqn:Emh; [|reflexivity]. exfalso.
      assert (Hfo0 : fst (core_of s) = None \/ fst (core_of s) = Some F).
      { destruct (K_fo _ _ _ _ (M_k _ _ _ HM)) as [H | [H _]]; auto. }
      destruct (chain_ok_in g _ _ _ _ _ _ Hch Hfw Hc) as [kc [(_ & Hj & Hi & _) Hfo]]. cbn [cjust cin] in Hj, Hi.
      destruct (Hfo Hfo0 Hfc) as [E | E]; [congruence|]. rewrite Hj in E. inversion E; subst fo.
      apply (txs_ok_ins_fresh _ _ _ _ _ Hok Hi). apply (M_mut _ _ _ HM). fold s. rewrite Emh. discriminate.
    + rewrite G6, E4, B6. reflexivity.
    + rewrite G7, E5. destruct B1 as []. reflexivity.
    + (* closing swept height *)
      rewrite G9, Q4. unfold s0. cbn [closing_swept_h set_saw]. rewrite F9.
      change (is_closing_swept (set_saw s4 true)) with (is_closing_swept s4).
      rewrite (is_closing_swept_csw s4), Hc4, (is_closing_swept_csw s'), (is_closing_swept_csw s2), Hkx, B10, (is_closing_swept_csw s).
      assert (Hcs' : core_of s' = core_of s) by (unfold core_of; rewrite E3, E5; destruct B1 as []; reflexivity).
      rewrite Hcs', P4, B7.
      destruct (csw (core_of s)) eqn:Ep, (csw kx) eqn:Eq; cbn [negb andb]; try reflexivity.
      symmetry. apply (M_swc _ _ _ HM). fold s. rewrite is_closing_swept_csw. exact Ep.
    + (* our-output swept height *)
      rewrite G10, Q5. unfold s0. cbn [our_swept_h set_saw]. rewrite F10.
      change (is_our_swept (set_saw s4 true)) with (is_our_swept s4).
      rewrite (is_our_swept_osw s4), Hc4, (is_our_swept_osw s'), (is_our_swept_osw s2), Hkx, B11, (is_our_swept_osw s).
      assert (Hcs' : core_of s' = core_of s) by (unfold core_of; rewrite E3, E5; destruct B1 as []; reflexivity).
      rewrite Hcs', P5, B8.
      destruct (osw (core_of s)) eqn:Ep, (osw kx) eqn:Eq; cbn [negb andb]; try reflexivity.
      symmetry. apply (M_swo _ _ _ HM). fold s. rewrite is_our_swept_osw. exact Ep.
    + rewrite G8, E6, B9. reflexivity.
  - (* the watches *)
    apply osorted_ext.
    + apply odiff_sorted, ounion_sorted, odiff_sorted, ounion_sorted. exact (M_Ws _ _ _ HM).
    + exact (M_Ws _ _ _ HM).
    + intros x. rewrite odiff_in, ounion_in, odiff_in, ounion_in, HA', HR'. split.
      * intros [[[[Hw | Hx] Hnr] | Hr] Hna]; [exact Hw | contradiction |].
        destruct (D2 x Hr) as [Hi [Hw | Hx]]; [|contradiction].
        apply (M_want _ _ _ HM x Hw). apply (txs_ok_ins_fresh _ _ _ _ _ Hok Hi).
      * intros Hw. assert (Hna : ~ In x A).
        { intros Hx. destruct (D1 x Hx) as [Ht Hnf]. destruct (M_W _ _ _ HM x Hw) as [G | G]; [contradiction|].
          apply in_map_iff in Ht. destruct Ht as [t [Et Ht]].
          destruct (txs_ok_in _ _ _ _ _ Hok Ht) as [S1 [T1 (_ & I2 & I3)]]. apply (h_tid _ _ _ _ I3). rewrite Et. apply I2. exact G. }
        split; [|exact Hna]. destruct (in_dec op_dec x R) as [Hr | Hr]; [right; exact Hr | left; split; [left; exact Hw | exact Hr]].
  - (* the seen set *)
    apply osorted_ext.
    + apply odiff_sorted, ounion_sorted. exact (M_Ss _ _ _ HM).
    + exact (M_Ss _ _ _ HM).
    + intros x. rewrite odiff_in, ounion_in, HR'. split.
      * intros [[Hs | Hr] Hnr]; [exact Hs | contradiction].
      * intros Hs. split; [left; exact Hs|]. intros Hr. destruct (D2 x Hr) as [Hi _].
        apply (txs_ok_ins_fresh _ _ _ _ _ Hok Hi). apply (M_seen _ _ _ HM). exact Hs.
Qed.


(** * chains and histories *)
Lemma MInv_init h0 : MInv [] [] (init_mon g h0).
Proof.
  constructor; cbn [init_mon m_state m_watches m_seen init_state core_of fo clo dsh mutual_h closing_swept_h our_swept_h].
  - apply KInv_init.
  - unfold loc_inv. cbn. auto.
  - intros x Hx. discriminate.
  - intros H. contradiction.
  - reflexivity.
  - reflexivity.
  - apply ounion_sorted, osorted_nil.
  - apply osorted_nil.
  - intros w Hw. apply ounion_in in Hw. destruct Hw as [[] | Hw]. left; exact Hw.
  - intros o Ho _. apply in_wanted in Ho. cbn [fst snd] in Ho. destruct Ho as [Ho | [Ho | [cl [Ho _]]]]; try discriminate.
    apply ounion_in. right. exact Ho.
  - intros o [].
Qed.

Lemma txs_ok_app a : forall S T b,
  txs_ok g S T (a ++ b) = txs_ok g S T a && txs_ok g (spent_after S a) (tids_after T a) b.
Proof.
  induction a as [|t r IH]; intros S T b; cbn [app txs_ok spent_after tids_after fold_left]; [reflexivity|].
  rewrite IH. unfold spent_after, tids_after. rewrite andb_assoc. reflexivity.
Qed.
Lemma spent_after_app a b S : spent_after S (a ++ b) = spent_after (spent_after S a) b.
Proof. unfold spent_after. apply fold_left_app. Qed.
Lemma tids_after_app a b T : tids_after T (a ++ b) = tids_after (tids_after T a) b.
Proof. unfold tids_after. apply fold_left_app. Qed.

Lemma run_adds_snoc m chain b :
  run_adds g m (chain ++ [b]) = (m1 <- run_adds g m chain ;; madd g m1 b).
Proof.
  unfold run_adds. revert m. induction chain as [|c r IH]; intros m; cbn [app map run mstep].
  - cbn [bind]. destruct (madd g m b); reflexivity.
  - destruct (madd g m c) as [m1|]; cbn [bind]; [apply IH | reflexivity].
Qed.

Lemma run_adds_inv chain : forall S T m m',
  MInv S T m -> txs_ok g S T (concat chain) = true -> run_adds g m chain = Ok m' ->
  MInv (spent_after S (concat chain)) (tids_after T (concat chain)) m'.
Proof.
  unfold run_adds. induction chain as [|b r IH]; intros S T m m' HM Hok Hr; cbn [concat map run mstep] in *.
  - inversion Hr; subst. exact HM.
  - apply bind_ok in Hr. destruct Hr as [m1 [E Hr]]. rewrite txs_ok_app in Hok. apply andb_true_iff in Hok. destruct Hok as [H1 H2].
    rewrite spent_after_app, tids_after_app. eapply IH; [|exact H2 | exact Hr]. eapply add_preserves; eassumption.
Qed.

Lemma consistent_snoc chain b : consistent g (chain ++ [b]) = true ->
  consistent g chain = true /\ txs_ok g (spent_after [] (concat chain)) (tids_after [] (concat chain)) b = true.
Proof.
  unfold consistent. rewrite concat_app. cbn [concat]. rewrite app_nil_r, txs_ok_app. apply andb_true_iff.
Qed.

(** connecting a block and disconnecting it again *)
Theorem undo h0 chain b m m' :
  consistent g (chain ++ [b]) = true ->
  run_adds g (init_mon g h0) chain = Ok m -> madd g m b = Ok m' ->
  mremove repaired g m' b = Ok (norm m).
Proof.
  intros Hc Hr Ha. destruct (consistent_snoc _ _ Hc) as [Hc1 Hc2].
  eapply add_remove; [|exact Hc2 | exact Ha]. eapply run_adds_inv; [apply MInv_init | exact Hc1 | exact Hr].
Qed.

(** the sync flag plays no role in whole-block deliveries *)
Lemma madd_norm m b : madd g (norm m) b = madd g m b.
Proof. reflexivity. Qed.
Lemma mremove_norm fx m b : mremove fx g (norm m) b = mremove fx g m b.
Proof. reflexivity. Qed.
Lemma norm_idem m : norm (norm m) = norm m.
Proof. reflexivity. Qed.

Lemma madd_height m b m' : madd g m b = Ok m' -> height (m_state m') = height (m_state m) + 1.
Proof.
  unfold madd. intros H. apply bind_ok in H. destruct H as [[[s4 A] R] [E H]]. inversion H; subst. cbn [m_state].
  destruct (add_block_inv _ _ _ _ _ E) as [chs [s2 (_ & _ & Ha & ->)]].
  destruct (sweep_add_fields (bump (m_state m)) s2) as (F1 & _). rewrite F1.
  destruct (fwd_all_proj _ _ _ _ _ Ha) as (_ & _ & P3). rewrite P3. reflexivity.
Qed.
Lemma run_adds_height chain : forall m m', run_adds g m chain = Ok m' ->
  height (m_state m') = height (m_state m) + N.of_nat (length chain).
Proof.
  unfold run_adds. induction chain as [|b r IH]; intros m m' H; cbn [map run mstep length] in *.
  - inversion H; subst. lia.
  - apply bind_ok in H. destruct H as [m1 [E H]]. rewrite (IH _ _ H), (madd_height _ _ _ E). lia.
Qed.

(** connecting a consistent, well-formed block never aborts *)
Theorem madd_total S T m b :
  MInv S T m -> txs_ok g S T b = true -> forallb (tx_wf g) b = true -> height (m_state m) < U32MAX ->
  exists m', madd g m b = Ok m'.
Proof.
  intros HM Hok Hwf Hh.
  destruct (steps_total g b S T _ (M_k _ _ _ HM) Hok Hwf) as [chs [kx Hst]].
  destruct (block_spec g b S T _ _ _ (M_k _ _ _ HM) Hok Hst) as [Hch _].
  destruct (fwd_bwd_all repaired chs eq_refl (bump (m_state m))) as [s2 [A [R (Ha & _)]]].
  { destruct (bump_fields (m_state m)) as (B1 & _). rewrite B1. eapply chain_ok_cpre. exact Hch. }
  { apply loc_inv_bump. exact (M_loc _ _ _ HM). }
  unfold madd, add_block.
  assert (Hd : decode_block g (core_of (m_state m)) b = Ok chs) by (apply decode_block_ok; exists kx; exact Hst).
  rewrite Hd. cbn [bind]. apply N.leb_gt in Hh. rewrite Hh. fold (bump (m_state m)). rewrite Ha. cbn [bind]. eexists; reflexivity.
Qed.

(** what is known of a monitor that stands on the chain [rev tf] *)
Definition Reach (h0 : N) (tf : list block) (m : mon) : Prop :=
  consistent g (rev tf) = true /\ exists m0, run_adds g (init_mon g h0) (rev tf) = Ok m0 /\ norm m0 = norm m.

Lemma chain_wf_single b : chain_wf g [b] = forallb (tx_wf g) b.
Proof. unfold chain_wf. cbn [concat]. rewrite app_nil_r. reflexivity. Qed.

Theorem history h0 ops : forall tf m,
  Reach h0 tf m -> hist_ok g tf ops -> h0 + N.of_nat (length tf) + count_adds ops <= U32MAX ->
  exists m2, run repaired g m ops = Ok m2 /\ Reach h0 (survivors tf ops) m2.
Proof.
  induction ops as [|o r IH]; intros tf m HR Hok Hb.
  - exists m. split; [reflexivity | exact HR].
  - destruct o as [b | b]; cbn [hist_ok run mstep survivors count_adds] in *.
    + (* connect *)
      destruct Hok as (Hc & Hwf & Hok). destruct HR as [Hcon [m0 [Hr0 Hn0]]].
      cbn [rev] in Hc. destruct (consistent_snoc _ _ Hc) as [_ Hc2].
      pose proof (run_adds_inv _ _ _ _ _ (MInv_init h0) Hcon Hr0) as HM0.
      assert (Hh0 : height (m_state m0) < U32MAX).
      { rewrite (run_adds_height _ _ _ Hr0). cbn [init_mon m_state init_state height]. rewrite rev_length. lia. }
      rewrite chain_wf_single in Hwf.
      destruct (madd_total _ _ _ _ HM0 Hc2 Hwf Hh0) as [m1 Hm1].
      assert (Hm1' : madd g m b = Ok m1) by (rewrite <- madd_norm, <- Hn0, madd_norm; exact Hm1).
      rewrite Hm1'. cbn [bind]. apply (IH (b :: tf) m1); [|exact Hok | cbn [length]; lia].
      split; [exact Hc|]. exists m1. split; [|reflexivity]. cbn [rev]. rewrite run_adds_snoc, Hr0. exact Hm1.
    + (* disconnect the tip *)
      destruct tf as [|t rest]; [contradiction|]. destruct Hok as [-> Hok]. destruct HR as [Hcon [m0 [Hr0 Hn0]]].
      cbn [rev] in Hcon, Hr0. rewrite run_adds_snoc in Hr0. apply bind_ok in Hr0. destruct Hr0 as [mp [Hrp Hap]].
      pose proof (undo h0 _ _ _ _ Hcon Hrp Hap) as Hu.
      assert (Hu' : mremove repaired g m b = Ok (norm mp)) by (rewrite <- mremove_norm, <- Hn0, mremove_norm; exact Hu).
      rewrite Hu'. cbn [bind tl]. apply (IH rest (norm mp)); [|exact Hok | cbn [length] in Hb; lia].
      split; [destruct (consistent_snoc _ _ Hcon) as [H _]; exact H|]. exists mp. split; [exact Hrp | reflexivity].
Qed.

End Main.

(** * the statements used by Props/C14.v *)
Theorem best_chain_thm g h0 ops :
  hist_ok g [] ops -> h0 + count_adds ops <= U32MAX ->
  exists m m', run repaired g (init_mon g h0) ops = Ok m
    /\ run_adds g (init_mon g h0) (best_chain ops) = Ok m' /\ norm m = norm m'.
Proof.
  intros Hok Hb.
  destruct (history g h0 ops [] (init_mon g h0)) as [m2 [Hr [_ [m0 [Hr0 Hn]]]]].
  - split; [reflexivity|]. exists (init_mon g h0). split; reflexivity.
  - exact Hok.
  - cbn [length]. lia.
  - exists m2, m0. split; [exact Hr|]. split; [exact Hr0 | symmetry; exact Hn].
Qed.

Theorem no_abort_thm g h0 ops :
  hist_ok g [] ops -> h0 + count_adds ops <= U32MAX -> run repaired g (init_mon g h0) ops <> Abort.
Proof.
  intros Hok Hb. destruct (best_chain_thm g h0 ops Hok Hb) as [m [m' [H _]]]. rewrite H. discriminate.
Qed.

(** equal up to the sync flag means equal in everything a channel's view consists of *)
Theorem norm_views m m' : norm m = norm m' ->
  funding_depth (m_state m) = funding_depth (m_state m')
  /\ double_spent_depth (m_state m) = double_spent_depth (m_state m')
  /\ closing_depth (m_state m) = closing_depth (m_state m')
  /\ (forall forgot, is_done (m_state m) forgot = is_done (m_state m') forgot)
  /\ clo (m_state m) = clo (m_state m')
  /\ closing_swept_h (m_state m) = closing_swept_h (m_state m')
  /\ our_swept_h (m_state m) = our_swept_h (m_state m')
  /\ m_watches m = m_watches m' /\ m_seen m = m_seen m'.
Proof.
  destruct m as [s W Sn], m' as [s' W' Sn']. unfold norm. cbn [m_state m_watches m_seen]. intros H. inversion H; subst.
  destruct s, s'. cbn in *. unfold set_saw in *. cbn in *. inversion H1; subst. repeat split; reflexivity.
Qed.

(** ... including the ChainState handed to the validators, which on every state agrees with
    the monitor's own depth getters wherever at most one kind of close is recorded *)
Theorem norm_chain_state m m' : norm m = norm m' -> chain_state (m_state m) = chain_state (m_state m').
Proof.
  destruct m as [s W Sn], m' as [s' W' Sn']. unfold norm. cbn [m_state]. intros H. inversion H; subst.
  destruct s, s'. cbn in *. unfold set_saw in *. cbn in *. inversion H1; subst. reflexivity.
Qed.
Theorem chain_state_getters s :
  (mutual_h s = None \/ unilateral_h s = None) ->
  chain_state s = (height s, funding_depth s, double_spent_depth s, closing_depth s).
Proof.
  unfold chain_state, funding_depth, double_spent_depth, closing_depth.
  intros [H | H]; rewrite H; destruct (mutual_h s), (unilateral_h s); reflexivity.
Qed.

(** restarts are transparent: the monitor persists everything its behaviour depends on *)
Lemma restore_persist m : restore (persist m) = m.
Proof. destruct m; reflexivity. Qed.
Theorem restarts_transparent fx g rops : forall m, run_r fx g m rops = run fx g m (deliveries rops).
Proof.
  induction rops as [|[o|] r IH]; intros m; cbn [run_r deliveries run].
  - reflexivity.
  - destruct (mstep fx g m o) as [m'|]; cbn [bind]; [apply IH | reflexivity].
  - rewrite restore_persist. apply IH.
Qed.

(** * the window of remembered headers *)
Definition winv (s : wst) : Prop :=
  w_len s <= w_peak s /\ w_peak s - MAX_REORG_SIZE <= w_len s
  /\ w_rem s = w_len s - (w_peak s - MAX_REORG_SIZE).

Lemma winv_init : winv winit.
Proof. unfold winv, winit, MAX_REORG_SIZE. cbn. lia. Qed.
Lemma winv_next s o : winv s -> winv (fst (wnext s o)).
Proof.
  unfold winv, MAX_REORG_SIZE. intros (H1 & H2 & H3). destruct o; cbn [wnext]; unfold MAX_REORG_SIZE.
  - cbn [fst w_rem w_len w_peak].
    destruct (N.min_spec 100 (w_rem s + 1)) as [[? ->] | [? ->]];
      destruct (N.max_spec (w_peak s) (w_len s + 1)) as [[? ->] | [? ->]]; lia.
  - destruct (w_rem s =? 0) eqn:E; cbn [fst w_rem w_len w_peak]; [auto|]. apply N.eqb_neq in E. lia.
  - cbn [fst]. auto.
Qed.
Lemma winv_run ops : forall s, winv s -> winv (wrun s ops).
Proof. induction ops as [|o r IH]; intros s H; cbn [wrun]; [exact H | apply IH, winv_next, H]. Qed.

(** a disconnection is refused exactly when it would go below the creation height or more
    than MAX_REORG_SIZE blocks below the highest block ever connected *)
Theorem window_accepts ops :
  let s := wrun winit ops in
  snd (wnext s WRemove) = true <-> (0 < w_len s /\ w_peak s - w_len s < MAX_REORG_SIZE).
Proof.
  cbn zeta. pose proof (winv_run ops winit winv_init) as (H1 & H2 & H3).
  set (s := wrun winit ops) in *. unfold MAX_REORG_SIZE in *. cbn [wnext].
  destruct (w_rem s =? 0) eqn:E; cbn [snd].
  - apply N.eqb_eq in E. split; [discriminate | lia].
  - apply N.eqb_neq in E. split; [lia | reflexivity].
Qed.
