(** The two entry points of the commitment policy model ([validate_counterparty_commitment],
    [validate_holder_commitment] of Model/CommitmentPolicy.v) are what the translated source
    computes: Gen/EnforcementRulesGen.v holds the statement-by-statement translation of
    SimpleValidator's validate_counterparty_commitment_tx and validate_holder_commitment_tx
    (whole bodies), in which the answer of the call [self.validate_commitment_tx(..)] is a
    parameter; here that parameter is the translated validate_commitment_tx of
    Gen/CommitmentPolicyGen.v on the same commitment number, so the statements are about the
    whole functions.

    The model's [estate] carries the comparisons of points and contents as their answers;
    [abs_estate ge pt c] computes them from the source-level state [ge], the commitment point [pt]
    and the identity [c] of the commitment content (equality of opaque values is equality of
    identities).  [cp_info_same] is read by the model only in the retry branch
    ([commit_num + 1 = next_counterparty_commit_num]), where the previous info of that number is the
    current one.  The translated functions see the setup, the chain state and the content only as
    identities ([sid], [csid], [c]): they hand them to validate_commitment_tx and compare [c]. *)
From Coq Require Import String.
From VLS Require Import Base.Rust Model.CommitmentPolicy Gen.CommitmentPolicyGen Gen.EnforcementRulesGen
  Proofs.CommitmentPolicyGenProofs.
From VLS Require Gen.EnforcementGen.
Require Import Lia.

Definition abs_estate (ge : EnforcementGen.res) (pt c : N) : estate :=
  mkEstate (EnforcementGen.res_next_holder_commit_num ge)
           (EnforcementGen.res_next_counterparty_commit_num ge)
           (EnforcementGen.res_next_counterparty_revoke_num ge)
           (EnforcementGen.res_channel_closed ge)
           (option_map (fun prev => pt =? prev) (EnforcementGen.res_current_counterparty_point ge))
           (opt_id_eqb (Some c) (EnforcementGen.res_current_counterparty_commit_info ge))
           (option_map (fun cur => c =? cur) (EnforcementGen.res_current_holder_commit_info ge)).

Lemma perr_alone swarn t :
  policy_err swarn (tag_name t) = of_res (perr (tag_filter swarn) t).
Proof. unfold perr, policy_err, tag_filter. destruct (swarn (tag_name t)); reflexivity. Qed.

Theorem gen_counterparty_is_model prof swarn gp (ge : EnforcementGen.res) n pt eid pid sid csid c gs gcs gi :
  commit_fits gs gi = true ->
  gen_validate_counterparty_commitment_tx prof swarn
    (gen_validate_commitment_tx prof swarn gp HTLC_TIMEOUT_WEIGHT HTLC_SUCCESS_WEIGHT eid n pid gs gcs gi)
    ge n pt sid csid c =
  of_res (validate_counterparty_commitment est_new prof (tag_filter swarn) (abs_policy gp)
            (abs_estate ge pt c) (abs_setup gs) (abs_chain gcs) n (abs_info gi)).
Proof.
  intros Hfit. rewrite gen_commitment_is_model by exact Hfit.
  unfold gen_validate_counterparty_commitment_tx, validate_counterparty_commitment. cbv beta zeta.
  cbn [abs_estate next_cp_revoke_num next_cp_commit_num cp_point_same cp_info_same].
  rewrite of_res_andthen. apply bindR_cong. intros _.
  destruct (add_p prof (EnforcementGen.res_next_counterparty_revoke_num ge) 1) as [lim|]; [|reflexivity].
  norm. apply (step_check swarn _ T_previous_revoked).
  destruct (add_p prof n 1) as [n1|] eqn:E1; [|reflexivity].
  norm.
  destruct (n1 =? EnforcementGen.res_next_counterparty_commit_num ge) eqn:En; [|reflexivity].
  unfold EnforcementGen.gen_get_previous_counterparty_commit_info. rewrite E1. cbn [bindT]. rewrite En.
  norm. cbv beta zeta. norm.
  rewrite of_res_andthen.
  rewrite <- (check_alone swarn (negb (opt_id_eqb (Some c) (EnforcementGen.res_current_counterparty_commit_info ge)))
                T_retry_same).
  destruct (EnforcementGen.res_current_counterparty_point ge) as [prev|]; cbn [option_map].
  - norm. rewrite <- (check_alone swarn (negb (pt =? prev)) T_retry_same). reflexivity.
  - rewrite <- (perr_alone swarn T_retry_same). reflexivity.
Qed.

Theorem gen_holder_is_model prof swarn gp (ge : EnforcementGen.res) n pt eid pid sid csid c gs gcs gi :
  commit_fits gs gi = true ->
  gen_validate_holder_commitment_tx prof swarn
    (gen_validate_commitment_tx prof swarn gp HTLC_TIMEOUT_WEIGHT HTLC_SUCCESS_WEIGHT eid n pid gs gcs gi)
    ge n pt sid csid c =
  of_res (validate_holder_commitment est_new prof (tag_filter swarn) (abs_policy gp)
            (abs_estate ge pt c) (abs_setup gs) (abs_chain gcs) n (abs_info gi)).
Proof.
  intros Hfit. rewrite gen_commitment_is_model by exact Hfit.
  unfold gen_validate_holder_commitment_tx, validate_holder_commitment. cbv beta zeta.
  cbn [abs_estate next_holder_commit_num channel_closed holder_info_same].
  rewrite of_res_andthen. apply bindR_cong. intros _.
  destruct (add_p prof n 1) as [n1|]; [|reflexivity].
  norm. rewrite of_res_andthen.
  (* the retry rule *)
  match goal with
  | |- bindR ?X _ = bindR (of_res ?A) _ => assert (Hretry : X = of_res A)
  end.
  { destruct (n1 =? EnforcementGen.res_next_holder_commit_num ge); [|reflexivity].
    destruct (EnforcementGen.res_current_holder_commit_info ge) as [cur|]; cbn [option_map expect_some];
      [|reflexivity].
    norm. cbv beta zeta. norm. apply (check_alone swarn _ T_retry_same). }
  rewrite Hretry. apply bindR_cong. intros _.
  (* not revoked, not closed *)
  destruct (add_p prof n 2) as [n2|]; [|reflexivity].
  norm.
  apply (step_check swarn (n2 <=? EnforcementGen.res_next_holder_commit_num ge) T_holder_not_revoked).
  apply (check_alone swarn _ T_active_utxo).
Qed.
