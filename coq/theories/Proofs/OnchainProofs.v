(** Proofs about Model/Onchain.v (validate_onchain_tx, check_onchain_tx, the approver, and the
    fee velocity control across on-chain requests). *)
From VLS Require Import Base.U64 Model.Velocity Model.Onchain.
From VLS Require Proofs.CommitmentPolicyProofs.
From Coq Require Import List.

(** * checked arithmetic *)

Lemma add_checked_some a b c : add_checked a b = Some c -> c = a + b /\ a + b <= U64MAX.
Proof.
  unfold add_checked. destruct (a + b <=? U64MAX) eqn:E; [|discriminate].
  intros H; inversion H. split; [reflexivity | lia].
Qed.

Lemma add_checked_none a b : add_checked a b = None -> U64MAX < a + b.
Proof. unfold add_checked. destruct (a + b <=? U64MAX) eqn:E; [discriminate|]. intros _. lia. Qed.

Lemma sub_checked_some a b c : sub_checked a b = Some c -> b <= a /\ c = a - b.
Proof.
  unfold sub_checked. destruct (b <=? a) eqn:E; [|discriminate].
  intros H; inversion H. split; [lia | reflexivity].
Qed.

Lemma sum_checked_some l : forall acc s,
  sum_checked l acc = Some s -> s = acc + sum_N l /\ s <= U64MAX \/ (l = [] /\ s = acc).
Proof.
  induction l as [|v l IH]; intros acc s H; cbn [sum_checked sum_N] in *.
  - right. inversion H. split; reflexivity.
  - left. destruct (add_checked acc v) as [a|] eqn:E; [|discriminate].
    apply add_checked_some in E. destruct E as [-> Hle].
    destruct (IH _ _ H) as [[-> Hs] | [-> ->]]; cbn [sum_N]; split; lia.
Qed.

Lemma sum_checked_spec l s :
  sum_checked l 0 = Some s -> s = sum_N l /\ sum_N l <= U64MAX.
Proof.
  intros H. destruct (sum_checked_some _ _ _ H) as [[-> Hs] | [-> ->]]; cbn [sum_N].
  - split; lia.
  - unfold U64MAX. split; lia.
Qed.

Lemma sum_checked_none l : forall acc, sum_checked l acc = None -> U64MAX < acc + sum_N l.
Proof.
  induction l as [|v l IH]; intros acc H; cbn [sum_checked sum_N] in *; [discriminate|].
  destruct (add_checked acc v) as [a|] eqn:E.
  - apply add_checked_some in E. destruct E as [-> _]. apply IH in H. lia.
  - apply add_checked_none in E. lia.
Qed.

(** * one output *)

Lemma first_err_none warn l :
  first_err warn l = None -> Forall (fun bt => fst bt = true -> warn (snd bt) = true) l.
Proof.
  induction l as [|[b t] l IH]; cbn [first_err]; intros H; constructor.
  - cbn [fst snd]. intros ->. destruct (warn t); [reflexivity | discriminate].
  - apply IH. destruct (b && negb (warn t)); [discriminate | exact H].
Qed.

Lemma guarded (b w : bool) : (b = true -> w = true) -> w = false -> b = false.
Proof. destruct b, w; intros H1 H2; try reflexivity; try discriminate. specialize (H1 eq_refl). discriminate. Qed.

Lemma chan_effect_cases warn o c :
  match chan_effect warn o c with
  | EBen v => chan_valid_w warn o c /\ v = c_value c - c_push_msat c / 1000
  | EErr _ => True
  | _ => False
  end.
Proof.
  unfold chan_effect.
  destruct (first_err warn _) as [t|] eqn:E; [exact I|].
  apply first_err_none in E.
  inversion E as [|? ? H1 E1]; subst. inversion E1 as [|? ? H2 E2]; subst.
  inversion E2 as [|? ? H3 E3]; subst. inversion E3 as [|? ? H4 E4]; subst.
  inversion E4 as [|? ? H5 E5]; subst. cbn [fst snd] in *.
  destruct (sub_checked (c_value c) (c_push_msat c / 1000)) as [v|] eqn:S; [|exact I].
  apply sub_checked_some in S. destruct S as [Hle ->].
  split; [|reflexivity]. unfold chan_valid_w. repeat split.
  - intros W. pose proof (guarded _ _ H1 W) as G. apply negb_false_iff in G. apply N.eqb_eq in G. exact G.
  - intros W. pose proof (guarded _ _ H2 W) as G. apply negb_false_iff in G. exact G.
  - intros W. pose proof (guarded _ _ H3 W) as G. apply negb_false_iff in G. apply N.eqb_eq in G. exact G.
  - intros W. pose proof (guarded _ _ H4 W) as G. apply negb_false_iff in G. exact G.
  - intros W. pose proof (guarded _ _ H5 W) as G. apply N.ltb_ge in G. lia.
  - exact Hle.
Qed.

(** what each effect says about the output *)
Lemma effect_cases warn o :
  match effect warn o with
  | EBen v => passable warn o /\ v = counted o /\ unclassified o = false
  | ESkip => passable warn o /\ counted o = 0 /\ unclassified o = false
  | EUnk => unclassified o = true /\ counted o = 0
  | EErr _ | EPanic => unclassified o = false
  end.
Proof.
  unfold effect, passable, counted, unclassified, has_chan.
  destruct (o_path o).
  - reflexivity.
  - destruct (o_allow_script o) eqn:A; cbn [negb andb].
    + repeat split. left. reflexivity.
    + destruct (o_chan o) as [c|] eqn:C; cbn [negb].
      * pose proof (chan_effect_cases warn o c) as H.
        destruct (chan_effect warn o c); try contradiction; try reflexivity.
        destruct H as [Hv ->]. repeat split. right. split; [reflexivity|].
        exists c. split; [reflexivity | exact Hv].
      * split; reflexivity.
  - destruct (o_can_spend o) as [[|]|].
    + repeat split. left. reflexivity.
    + destruct (o_allow_path o) as [[|]|].
      * repeat split. right. split; [reflexivity|]. left. reflexivity.
      * destruct (warn T_no_unknown_outputs) eqn:W; [|reflexivity].
        repeat split. right. split; [reflexivity|]. right. split; reflexivity.
      * reflexivity.
    + reflexivity.
Qed.

(** * the loop over the outputs *)

Definition cleared (warn : otag -> bool) (o : output) : Prop := unclassified o = true \/ passable warn o.

Lemma out_loop_done warn outs : forall i sum unk s u,
  out_loop warn outs i sum unk = LDone s u ->
  Forall (cleared warn) outs /\
  s = sum + sum_N (map counted outs) /\
  (sum <= U64MAX -> s <= U64MAX) /\
  u = unk ++ unknown_idx_from i outs.
Proof.
  induction outs as [|o r IH]; intros i sum unk s u H; cbn [out_loop] in H.
  - inversion H; subst. cbn [map sum_N unknown_idx_from]. rewrite app_nil_r.
    split; [constructor|]. split; [lia|]. split; [auto | reflexivity].
  - pose proof (effect_cases warn o) as E. cbn [map sum_N unknown_idx_from].
    destruct (effect warn o) as [v| | |t|]; try discriminate.
    + destruct E as (P & -> & U). rewrite U.
      destruct (add_checked sum (counted o)) as [a|] eqn:A; [|discriminate].
      apply add_checked_some in A. destruct A as [-> Hle].
      destruct (IH _ _ _ _ _ H) as (F & -> & B & ->).
      split; [constructor; [right; exact P | exact F]|].
      split; [lia|]. split; [intros _; apply B; exact Hle | reflexivity].
    + destruct E as (P & Z & U). rewrite U, Z.
      destruct (IH _ _ _ _ _ H) as (F & -> & B & ->).
      split; [constructor; [right; exact P | exact F]|].
      split; [lia|]. split; [exact B | reflexivity].
    + destruct E as (U & Z). rewrite U, Z.
      destruct (IH _ _ _ _ _ H) as (F & -> & B & ->).
      split; [constructor; [left; exact U | exact F]|].
      split; [lia|]. split; [exact B|].
      rewrite <- app_assoc. reflexivity.
Qed.

(** an unclassified output never makes the loop refuse by itself *)
Lemma effect_unclassified warn o : unclassified o = true -> effect warn o = EUnk.
Proof.
  unfold unclassified, effect, has_chan. destruct (o_path o); try discriminate.
  destruct (o_allow_script o); cbn [negb andb]; [discriminate|].
  destruct (o_chan o); cbn [negb]; [discriminate | reflexivity].
Qed.

Lemma out_loop_quiet warn outs : forall i sum unk,
  Forall (quiet warn) outs ->
  sum + sum_N (map counted outs) <= U64MAX ->
  out_loop warn outs i sum unk =
    LDone (sum + sum_N (map counted outs)) (unk ++ unknown_idx_from i outs).
Proof.
  induction outs as [|o r IH]; intros i sum unk F B; cbn [out_loop map sum_N unknown_idx_from] in *.
  - rewrite app_nil_r. f_equal. lia.
  - inversion F as [|? ? Q F']; subst. unfold quiet in Q.
    pose proof (effect_cases warn o) as E.
    destruct (effect warn o) as [v| | |t|]; try contradiction.
    + destruct E as (_ & -> & U). rewrite U.
      unfold add_checked. destruct (sum + counted o <=? U64MAX) eqn:L; [|lia].
      rewrite IH; [f_equal; lia | exact F' | lia].
    + destruct E as (_ & Z & U). rewrite U. rewrite Z in *.
      rewrite IH; [f_equal; lia | exact F' | lia].
    + destruct E as (U & Z). rewrite U. rewrite Z in *.
      rewrite IH; [rewrite <- app_assoc; f_equal; lia | exact F' | lia].
Qed.

Lemma cleared_no_unknown warn outs : forall i,
  Forall (cleared warn) outs -> unknown_idx_from i outs = [] -> Forall (passable warn) outs.
Proof.
  induction outs as [|o r IH]; intros i F U; [constructor|].
  inversion F as [|? ? C F']; subst. cbn [unknown_idx_from] in U.
  destruct (unclassified o) eqn:Uo; [discriminate|].
  constructor; [|eapply IH; eassumption].
  destruct C as [C|C]; [congruence | exact C].
Qed.

(** * validate_onchain_tx *)

Lemma forallb_id l : forallb (fun b : bool => b) l = true -> Forall (fun b => b = true) l.
Proof.
  induction l as [|b l IH]; cbn [forallb]; intros H; constructor.
  - destruct b; [reflexivity | discriminate].
  - apply IH. destruct b; [exact H | discriminate].
Qed.

Lemma unguard (b w : bool) : b && negb w = false -> w = false -> b = false.
Proof. destruct b, w; cbn; congruence. Qed.

(** everything an accepted transaction went through, for an arbitrary filter: each conjunct can
    only be missing when its own tag is downgraded *)
Theorem validate_ok_facts warn pol tx nbv :
  validate_onchain warn pol tx = VOk nbv ->
  (warn T_format_standard = false -> t_version_two tx = true) /\
  (warn T_max_size = false -> t_base_size tx <= MAX_ONCHAIN_TX_SIZE) /\
  (any_chan (t_outputs tx) = true ->
     N.of_nat (length (t_flags tx)) = t_n_txin tx /\
     (warn T_non_malleable = false -> Forall (fun b => b = true) (t_flags tx))) /\
  Forall (passable warn) (t_outputs tx) /\
  unknown_idx (t_outputs tx) = [] /\
  sum_N (t_values tx) <= U64MAX /\
  sum_N (map counted (t_outputs tx)) <= U64MAX /\
  nbv + sum_N (map counted (t_outputs tx)) = sum_N (t_values tx) /\
  t_weight tx <> 0 /\
  (warn T_fee_range = false -> disable_beneficial pol = false -> max_feerate pol < U32MAX ->
     nbv * 1000 + 999 < (max_feerate pol + 1) * t_weight tx).
Proof.
  unfold validate_onchain. intros H.
  destruct (negb (t_version_two tx) && negb (warn T_format_standard)) eqn:V; [discriminate|].
  destruct ((MAX_ONCHAIN_TX_SIZE <? t_base_size tx) && negb (warn T_max_size)) eqn:S; [discriminate|].
  destruct (if any_chan (t_outputs tx) then non_malleable tx else Some true) as [nm|] eqn:M;
    [|discriminate].
  destruct (negb nm && negb (warn T_non_malleable)) eqn:NM; [discriminate|].
  destruct (out_loop warn (t_outputs tx) 0 0 []) as [ben unk| |] eqn:L; try discriminate.
  destruct unk as [|x unk]; cbn [length Nat.eqb negb] in H; [|discriminate].
  destruct (sum_checked (t_values tx) 0) as [sin|] eqn:SI; [|discriminate].
  apply out_loop_done in L. destruct L as (F & Hben & Bben & Hunk). cbn [app] in Hunk.
  apply sum_checked_spec in SI. destruct SI as [-> Bin].
  unfold validate_beneficial in H.
  destruct (sub_checked (sum_N (t_values tx)) ben) as [d|] eqn:D; [|discriminate].
  apply sub_checked_some in D. destruct D as [Dle ->].
  destruct (t_weight tx =? 0) eqn:W0; [discriminate|]. apply N.eqb_neq in W0.
  destruct ((max_feerate pol <? estimate (sum_N (t_values tx) - ben) (t_weight tx))
            && negb (disable_beneficial pol) && negb (warn T_fee_range)) eqn:R; [discriminate|].
  inversion H; subst nbv. clear H.
  assert (Bb : ben <= U64MAX) by (apply Bben; unfold U64MAX; lia).
  rewrite N.add_0_l in Hben. subst ben.
  split.
  { intros Wf. pose proof (unguard _ _ V Wf) as G. apply negb_false_iff in G. exact G. }
  split.
  { intros Wf. pose proof (unguard _ _ S Wf) as G. apply N.ltb_ge in G. exact G. }
  split.
  { intros A. rewrite A in M. unfold non_malleable in M.
    destruct (N.of_nat (length (t_flags tx)) =? t_n_txin tx) eqn:Len; [|discriminate].
    apply N.eqb_eq in Len. split; [exact Len|].
    intros Wf. inversion M; subst nm. pose proof (unguard _ _ NM Wf) as G.
    apply negb_false_iff in G. apply forallb_id. exact G. }
  split.
  { eapply cleared_no_unknown; [exact F | symmetry; exact Hunk]. }
  split; [symmetry; exact Hunk|].
  split; [exact Bin|]. split; [exact Bb|]. split; [lia|]. split; [exact W0|].
  intros Wf Dis Mx. rewrite Dis, Wf in R. cbn [negb] in R. rewrite !andb_true_r in R.
  apply N.ltb_ge in R. unfold estimate in R.
  apply CommitmentPolicyProofs.estimate_le_max; assumption.
Qed.

(** under the non-permissive filter a passable output is beneficial, and what the loop counts
    for it is its value *)
Lemma strict_passable_beneficial warn o :
  (forall t, warn t = false) -> passable warn o -> beneficial o /\ counted o = o_value o.
Proof.
  intros Hw. unfold passable, beneficial, counted. destruct (o_path o); [tauto| |].
  - intros [A | (A & c & C & V)].
    + rewrite A. split; [left; reflexivity | reflexivity].
    + rewrite A, C. destruct V as (V1 & V2 & V3 & V4 & V5 & V6).
      specialize (V1 (Hw _)). specialize (V2 (Hw _)). specialize (V3 (Hw _)).
      specialize (V4 (Hw _)). specialize (V5 (Hw _)).
      split.
      * right. split; [reflexivity|]. exists c. split; [reflexivity|].
        unfold chan_valid. tauto.
      * rewrite V5, V1. lia.
  - intros [A | (A & [B | (B & W)])].
    + rewrite A. split; [left; reflexivity | reflexivity].
    + rewrite A, B. split; [right; split; reflexivity | reflexivity].
    + rewrite Hw in W. discriminate.
Qed.

Lemma strict_counted_values warn outs :
  (forall t, warn t = false) -> Forall (passable warn) outs ->
  Forall beneficial outs /\ map counted outs = out_values outs.
Proof.
  intros Hw. induction 1 as [|o r P F [IH1 IH2]]; cbn [map out_values]; [split; [constructor | reflexivity]|].
  destruct (strict_passable_beneficial warn o Hw P) as [B C].
  split; [constructor; assumption|]. rewrite C. unfold out_values in IH2. rewrite IH2. reflexivity.
Qed.

(** the non-permissive reading: every output goes back to the wallet, to an allowlisted
    destination or into a validated channel, and the non-beneficial value is exactly the
    transaction's fee, within the maximum rate for the weight lower bound *)
Theorem validate_ok_strict warn pol tx nbv :
  (forall t, warn t = false) ->
  validate_onchain warn pol tx = VOk nbv ->
  t_version_two tx = true /\ t_base_size tx <= MAX_ONCHAIN_TX_SIZE /\
  Forall beneficial (t_outputs tx) /\
  sum_N (t_values tx) <= U64MAX /\ sum_N (out_values (t_outputs tx)) <= U64MAX /\
  nbv + sum_N (out_values (t_outputs tx)) = sum_N (t_values tx) /\
  t_weight tx <> 0 /\
  (disable_beneficial pol = false -> max_feerate pol < U32MAX ->
     nbv * 1000 + 999 < (max_feerate pol + 1) * t_weight tx) /\
  (any_chan (t_outputs tx) = true ->
     N.of_nat (length (t_flags tx)) = t_n_txin tx /\ Forall (fun b => b = true) (t_flags tx)).
Proof.
  intros Hw H. apply validate_ok_facts in H.
  destruct H as (V & S & M & P & _ & Bin & Bout & Eq & W & R).
  destruct (strict_counted_values warn _ Hw P) as [B C]. rewrite C in *.
  split; [apply V, Hw|]. split; [apply S, Hw|]. split; [exact B|]. split; [exact Bin|].
  split; [exact Bout|]. split; [exact Eq|]. split; [exact W|].
  split; [intros D Mx; apply R; [apply Hw | exact D | exact Mx]|].
  intros A. destruct (M A) as [L G]. split; [exact L | apply G, Hw].
Qed.

(** every output that funds a channel passed the channel checks *)
Lemma beneficial_funds o c : beneficial o -> funds o c -> chan_valid o c.
Proof.
  unfold beneficial, funds. intros B (P & A & C). rewrite P in B.
  destruct B as [B | (_ & c' & C' & V)]; [congruence|].
  rewrite C in C'. inversion C'; subst c'. exact V.
Qed.

Lemma passable_funds warn o c : passable warn o -> funds o c -> chan_valid_w warn o c.
Proof.
  unfold passable, funds. intros B (P & A & C). rewrite P in B.
  destruct B as [B | (_ & c' & C' & V)]; [congruence|].
  rewrite C in C'. inversion C'; subst c'. exact V.
Qed.

(** ** overflow candidates *)

Theorem inputs_overflow_refused warn pol tx :
  U64MAX < sum_N (t_values tx) -> forall nbv, validate_onchain warn pol tx <> VOk nbv.
Proof.
  intros Hov nbv H. apply validate_ok_facts in H.
  destruct H as (_ & _ & _ & _ & _ & Bin & _). lia.
Qed.

Lemma counted_sum_overflow_loop warn outs : forall i sum unk s u,
  out_loop warn outs i sum unk = LDone s u -> sum <= U64MAX -> sum + sum_N (map counted outs) <= U64MAX.
Proof.
  intros i sum unk s u H B. apply out_loop_done in H. destruct H as (_ & -> & Bs & _).
  apply Bs. exact B.
Qed.

Theorem outputs_overflow_refused warn pol tx :
  U64MAX < sum_N (map counted (t_outputs tx)) -> forall nbv, validate_onchain warn pol tx <> VOk nbv.
Proof.
  intros Hov nbv H. apply validate_ok_facts in H.
  destruct H as (_ & _ & _ & _ & _ & _ & Bout & _). lia.
Qed.

(** ** unknown destinations *)

Theorem unknown_exact warn pol tx u :
  validate_onchain warn pol tx = VUnknown u -> u = unknown_idx (t_outputs tx) /\ u <> [].
Proof.
  unfold validate_onchain. intros H.
  destruct (negb (t_version_two tx) && negb (warn T_format_standard)); [discriminate|].
  destruct ((MAX_ONCHAIN_TX_SIZE <? t_base_size tx) && negb (warn T_max_size)); [discriminate|].
  destruct (if any_chan (t_outputs tx) then non_malleable tx else Some true) as [nm|];
    [|discriminate].
  destruct (negb nm && negb (warn T_non_malleable)); [discriminate|].
  destruct (out_loop warn (t_outputs tx) 0 0 []) as [ben unk| |] eqn:L; try discriminate.
  destruct unk as [|x unk]; cbn [length Nat.eqb negb] in H.
  - destruct (sum_checked (t_values tx) 0); [|discriminate].
    unfold validate_beneficial in H.
    destruct (sub_checked n ben); [|discriminate].
    destruct (t_weight tx =? 0); [discriminate|].
    destruct ((max_feerate pol <? estimate n0 (t_weight tx)) && negb (disable_beneficial pol)
              && negb (warn T_fee_range)); discriminate.
  - inversion H; subst u. apply out_loop_done in L. destruct L as (_ & _ & _ & Hu).
    cbn [app] in Hu. split; [exact Hu | discriminate].
Qed.

Theorem unknown_never_ok warn pol tx :
  unknown_idx (t_outputs tx) <> [] ->
  match validate_onchain warn pol tx with
  | VOk _ => False
  | VUnknown u => u = unknown_idx (t_outputs tx)
  | VErr _ | VPanic => True
  end.
Proof.
  intros Hne. destruct (validate_onchain warn pol tx) as [nbv|t|u|] eqn:H; try exact I.
  - apply validate_ok_facts in H. destruct H as (_ & _ & _ & _ & U & _). contradiction.
  - apply unknown_exact in H. destruct H as [H _]. exact H.
Qed.

(** when nothing else refuses (format, size, malleability, every other output quiet, beneficial
    sum within u64), the answer is exactly the list of unclassified indices *)
Theorem unknown_reported warn pol tx :
  (t_version_two tx = true \/ warn T_format_standard = true) ->
  (t_base_size tx <= MAX_ONCHAIN_TX_SIZE \/ warn T_max_size = true) ->
  (any_chan (t_outputs tx) = true ->
     N.of_nat (length (t_flags tx)) = t_n_txin tx /\
     (Forall (fun b => b = true) (t_flags tx) \/ warn T_non_malleable = true)) ->
  Forall (quiet warn) (t_outputs tx) ->
  sum_N (map counted (t_outputs tx)) <= U64MAX ->
  unknown_idx (t_outputs tx) <> [] ->
  validate_onchain warn pol tx = VUnknown (unknown_idx (t_outputs tx)).
Proof.
  intros V S M Q B U. unfold validate_onchain.
  replace (negb (t_version_two tx) && negb (warn T_format_standard)) with false
    by (destruct V as [-> | ->]; [reflexivity | rewrite andb_false_r; reflexivity]).
  replace ((MAX_ONCHAIN_TX_SIZE <? t_base_size tx) && negb (warn T_max_size)) with false.
  2:{ destruct S as [S | ->]; [|rewrite andb_false_r; reflexivity].
      apply N.ltb_ge in S. rewrite S. reflexivity. }
  assert (exists nm, (if any_chan (t_outputs tx) then non_malleable tx else Some true) = Some nm /\
                     negb nm && negb (warn T_non_malleable) = false) as (nm & -> & ->).
  { destruct (any_chan (t_outputs tx)) eqn:A.
    - destruct (M eq_refl) as [L F]. unfold non_malleable. apply N.eqb_eq in L. rewrite L.
      eexists. split; [reflexivity|]. destruct F as [F | ->]; [|rewrite andb_false_r; reflexivity].
      replace (forallb (fun b : bool => b) (t_flags tx)) with true; [reflexivity|].
      symmetry. apply forallb_forall. rewrite Forall_forall in F. exact F.
    - exists true. split; reflexivity. }
  rewrite out_loop_quiet; [|exact Q | lia]. cbn [app].
  unfold unknown_idx in *. destruct (unknown_idx_from 0 (t_outputs tx)); [contradiction | reflexivity].
Qed.

(** * Node::check_onchain_tx *)

Lemma sat_mul_cases a : sat_mul a 1000 = a * 1000 \/ (U64MAX < a * 1000 /\ sat_mul a 1000 = U64MAX).
Proof. unfold sat_mul. destruct (N.le_gt_cases (a * 1000) U64MAX); [left | right]; lia. Qed.

Lemma insert_limit c now amt : limit (fst (insert c now amt)) = limit c.
Proof.
  unfold insert. destruct (limit (advance c now) <? sat_add (velocity (advance c now)) amt); reflexivity.
Qed.

(** a saturated amount is never approved by a control with a finite limit *)
Lemma insert_saturated_refused c now : limit c < U64MAX -> snd (insert c now U64MAX) = false.
Proof.
  intros L. unfold insert.
  assert (E : sat_add (velocity (advance c now)) U64MAX = U64MAX) by (unfold sat_add; lia).
  rewrite E. cbn [advance limit].
  destruct (limit c <? U64MAX) eqn:Lt; [reflexivity|]. apply N.ltb_ge in Lt. lia.
Qed.

Lemma accepted_exact c now nbv :
  limit c < U64MAX -> snd (insert c now (sat_mul nbv 1000)) = true -> sat_mul nbv 1000 = nbv * 1000.
Proof.
  intros L H. destruct (sat_mul_cases nbv) as [E | [_ E]]; [exact E|].
  rewrite E in H. rewrite (insert_saturated_refused c now L) in H. discriminate.
Qed.

Lemma check_ok_inv warn pol c now nc nbv c1 :
  check_onchain warn pol c now nc = (COk nbv, c1) ->
  exists w, node_weight nc = Some w /\
            validate_onchain warn pol (to_txcase nc w) = VOk nbv /\
            c1 = fst (insert c now (sat_mul nbv 1000)) /\
            (warn T_fee_range = false -> snd (insert c now (sat_mul nbv 1000)) = true).
Proof.
  unfold check_onchain, check_onchain_with. intros H.
  destruct (node_weight nc) as [w|]; [|inversion H].
  destruct (validate_onchain warn pol (to_txcase nc w)) as [n|t|u|] eqn:V; try (inversion H; fail).
  exists w. split; [reflexivity|].
  destruct (insert c now (sat_mul n 1000)) as [c' ok] eqn:I.
  assert (n = nbv /\ c' = c1 /\ (warn T_fee_range = false -> ok = true)) as (-> & -> & Hok).
  { destruct ok.
    - inversion H. auto.
    - destruct (warn T_fee_range); inversion H. repeat split; auto; discriminate. }
  rewrite I. cbn [fst snd]. split; [exact V|]. split; [reflexivity | exact Hok].
Qed.

(** an in-range rate on a transaction below 2^32 weight units keeps [nbv * 1000] inside u64 *)
Lemma rate_bounds_msat nbv m w :
  m < U32MAX -> w < two32 -> nbv * 1000 + 999 < (m + 1) * w -> nbv * 1000 <= U64MAX.
Proof. unfold U32MAX, two32, U64MAX. intros Hm Hw H. nia. Qed.

Lemma check_result_cases warn pol c now nc :
  match fst (check_onchain warn pol c now nc) with
  | CUnknown u => exists w, node_weight nc = Some w /\
                            validate_onchain warn pol (to_txcase nc w) = VUnknown u /\
                            snd (check_onchain warn pol c now nc) = c
  | _ => True
  end.
Proof.
  unfold check_onchain, check_onchain_with.
  destruct (node_weight nc) as [w|]; [|exact I].
  destruct (validate_onchain warn pol (to_txcase nc w)) as [n|t|u|] eqn:V; cbn [fst snd]; try exact I.
  - destruct (insert c now (sat_mul n 1000)) as [c' ok]. destruct ok; cbn [fst]; [exact I|].
    destruct (warn T_fee_range); exact I.
  - exists w. split; [reflexivity|]. split; [exact V | reflexivity].
Qed.

(** * the approver *)

Theorem handle_approved warn pol approve c now nc c1 :
  handle_proposed warn pol approve c now nc = (HApproved, c1) ->
  (exists nbv, check_onchain warn pol c now nc = (COk nbv, c1)) \/
  (check_onchain warn pol c now nc = (CUnknown (unknown_idx (n_outputs nc)), c1) /\
   unknown_idx (n_outputs nc) <> [] /\
   approve (unknown_idx (n_outputs nc)) = true /\ c1 = c).
Proof.
  unfold handle_proposed, handle_proposed_with. intros H.
  pose proof (check_result_cases warn pol c now nc) as K.
  destruct (check_onchain warn pol c now nc) as [r c'] eqn:E. cbn [fst snd] in K.
  destruct r as [n|t|u|]; inversion H; subst.
  - left. exists n. reflexivity.
  - right. destruct K as (w & _ & V & ->). apply unknown_exact in V. cbn [to_txcase t_outputs] in V.
    destruct V as [-> Hne]. destruct (approve (unknown_idx (n_outputs nc))) eqn:A; [|discriminate].
    repeat split; auto.
Qed.

(** * the fee velocity control across a history of on-chain requests *)

Lemma nondecreasing_weaken l : forall a b, b <= a -> nondecreasing a l = true -> nondecreasing b l = true.
Proof.
  destruct l as [|t l]; intros a b Hab H; cbn [nondecreasing] in *; [reflexivity|].
  apply andb_true_iff in H. destruct H as [H1 H2]. apply N.leb_le in H1.
  apply andb_true_iff. split; [apply N.leb_le; lia | exact H2].
Qed.

Lemma node_eta (s : nodevc) : mknode (mem s) (disk s) = s.
Proof. destruct s; reflexivity. Qed.

Lemma of_spec_limit it lim0 : limit (of_spec it lim0) = fst (fst (spec_triple it lim0)).
Proof. unfold of_spec. destruct (spec_triple it lim0) as [[l i] n]. reflexivity. Qed.

Lemma restore_limit it lim0 d : limit (restore it lim0 d) = fst (fst (spec_triple it lim0)).
Proof.
  unfold restore, update_spec. destruct (spec_matches d it lim0) eqn:M; [|apply of_spec_limit].
  unfold spec_matches in M. destruct (spec_triple it lim0) as [[l i] n]. cbn [fst].
  apply andb_true_iff in M. destruct M as [M _]. apply andb_true_iff in M. destruct M as [M _].
  apply N.eqb_eq in M. exact M.
Qed.

Section History.
Variables (warn : otag -> bool) (pol : opolicy) (it : itype) (lim0 : N).
Hypothesis Hwarn : warn T_fee_range = false.
Hypothesis Hlim : fst (fst (spec_triple it lim0)) < U64MAX.

(** the request as the velocity model sees it: an approval attempt for the validated value *)
Definition tx_vop (now : N) (nc : nodecase) : option vop :=
  match node_weight nc with
  | None => None
  | Some w =>
      match validate_onchain warn pol (to_txcase nc w) with
      | VOk nbv => Some (Approve now (sat_mul nbv 1000))
      | _ => None
      end
  end.

Fixpoint to_vops (ops : list oop) : list vop :=
  match ops with
  | [] => []
  | OTx now nc :: r =>
      match tx_vop now nc with Some v => v :: to_vops r | None => to_vops r end
  | OPersist :: r => Persist :: to_vops r
  | ORestart :: r => Restart :: to_vops r
  end.

(** the history is a velocity history; the amounts it logs are the true values, because a value
    that does not fit in u64 msat is refused by a control with a finite limit *)
Lemma orun_sim ops : forall s log,
  limit (mem s) = fst (fst (spec_triple it lim0)) ->
  orun_from warn pol it lim0 s log ops = vrun_from it lim0 s log (to_vops ops).
Proof.
  induction ops as [|o r IH]; intros s log HL; [reflexivity|].
  destruct o as [now nc| |]; cbn [orun_from to_vops ostep] in *.
  - unfold tx_vop, check_onchain, check_onchain_with.
    destruct (node_weight nc) as [w|] eqn:W.
    2:{ rewrite node_eta. apply IH. exact HL. }
    destruct (validate_onchain warn pol (to_txcase nc w)) as [n|t|u|] eqn:V;
      try (rewrite node_eta; apply IH; exact HL).
    cbn [vrun_from vstep].
    pose proof (insert_limit (mem s) now (sat_mul n 1000)) as IL.
    pose proof (accepted_exact (mem s) now n) as AE. rewrite HL in AE. specialize (AE Hlim).
    destruct (insert (mem s) now (sat_mul n 1000)) as [c1 ok]. cbn [fst snd] in *. destruct ok.
    + rewrite (AE eq_refl). apply IH. cbn [mem]. rewrite IL. exact HL.
    + rewrite Hwarn. apply IH. cbn [mem]. rewrite IL. exact HL.
  - cbn [vrun_from vstep]. apply IH. cbn [mem]. exact HL.
  - cbn [vrun_from vstep]. apply IH. cbn [mem]. apply restore_limit.
Qed.

Lemma to_vops_times ops : forall from,
  nondecreasing from (oop_times ops) = true -> nondecreasing from (op_times (to_vops ops)) = true.
Proof using warn pol.
  clear Hwarn Hlim.
  induction ops as [|o r IH]; intros from H; [reflexivity|].
  destruct o as [now nc| |]; cbn [oop_times to_vops op_times] in *; try (apply IH; exact H).
  cbn [nondecreasing] in H. apply andb_true_iff in H. destruct H as [H1 H2].
  unfold tx_vop. destruct (node_weight nc) as [w|].
  2:{ apply IH. apply N.leb_le in H1. eapply nondecreasing_weaken; eassumption. }
  destruct (validate_onchain warn pol (to_txcase nc w));
    try (apply IH; apply N.leb_le in H1; eapply nondecreasing_weaken; eassumption).
  cbn [op_times nondecreasing]. rewrite H1. cbn [andb]. apply IH. exact H2.
Qed.

Theorem orun_is_vrun ops :
  orun warn pol it lim0 ops = vrun it lim0 (to_vops ops).
Proof. unfold orun, vrun. apply orun_sim. unfold vinit. cbn [mem]. apply of_spec_limit. Qed.

End History.

(** * MemoApprover *)

Lemma mrun_app delegate ops1 : forall memo ops2,
  mrun delegate memo (ops1 ++ ops2) =
  let '(m1, a1) := mrun delegate memo ops1 in
  let '(m2, a2) := mrun delegate m1 ops2 in (m2, a1 ++ a2).
Proof.
  induction ops1 as [|o r IH]; intros memo ops2; cbn [app mrun].
  - destruct (mrun delegate memo ops2). reflexivity.
  - destruct (mstep delegate memo o) as [m1 a]. rewrite IH.
    destruct (mrun delegate m1 r) as [m2 a1]. destruct (mrun delegate m2 ops2) as [m3 a2].
    destruct a; reflexivity.
Qed.

(** what is memorized after a history: the argument of a trailing [approve], nothing otherwise *)
Lemma memo_after delegate pre : forall memo,
  fst (mrun delegate memo pre) =
  match rev pre with
  | [] => memo
  | MSet txs :: _ => txs
  | MAsk _ :: _ => []
  end.
Proof.
  induction pre as [|o r IH] using rev_ind; intros memo; [reflexivity|].
  rewrite rev_app_distr. cbn [rev app]. rewrite mrun_app.
  destruct (mrun delegate memo r) as [m1 a1]. cbn [mrun].
  destruct o; cbn [mstep fst]; reflexivity.
Qed.

(** with a delegate that declines, a request is approved only if the operation right before it
    is an [approve] naming this very transaction; so one approval serves at most one request *)
Theorem memo_exact_once pre tx :
  snd (mstep (fun _ => false) (fst (mrun (fun _ => false) [] pre)) (MAsk tx)) = Some true ->
  exists pre' txs, pre = pre' ++ [MSet txs] /\ In tx txs.
Proof.
  rewrite memo_after. cbn [mstep snd]. rewrite orb_false_r.
  destruct (rev pre) as [|o r] eqn:E.
  - cbn [existsb]. discriminate.
  - assert (P : pre = rev r ++ [o]) by (rewrite <- (rev_involutive pre), E; reflexivity).
    destruct o as [txs|t]; [|cbn [existsb]; discriminate].
    intros H. inversion H as [H1]. apply existsb_exists in H1. destruct H1 as (x & Hin & Hx).
    apply N.eqb_eq in Hx. subst x. exists (rev r), txs. split; assumption.
Qed.
