(** Invariants of the payment bookkeeping (Model/Payments.v) over every history of commitment
    updates on several channels, invoice approvals and restarts.  Used by Props/C06.v. *)
From VLS Require Import Base.U64 Model.Payments.
From Coq Require Import ZifyBool ZifyN ZifyNat.

Local Open Scope N_scope.

(** * association lists *)

Lemma hhas_in m h : hhas m h = true <-> In h (hkeys m).
Proof.
  induction m as [|[k v] m IH]; cbn [hhas hkeys map fst In].
  - split; [discriminate | contradiction].
  - rewrite orb_true_iff, IH, N.eqb_eq. tauto.
Qed.

Lemma hget_notin m h : ~ In h (hkeys m) -> hget m h = 0.
Proof.
  induction m as [|[k v] m IH]; cbn [hget hkeys map fst In]; intros H; [reflexivity|].
  destruct (k =? h) eqn:E; [apply N.eqb_eq in E; tauto | apply IH; tauto].
Qed.

Lemma hhas_notin m h : ~ In h (hkeys m) -> hhas m h = false.
Proof.
  intros H. destruct (hhas m h) eqn:E; [|reflexivity]. apply hhas_in in E. contradiction.
Qed.

(** outside the key set of a summary both values are zero, for the new and for the current
    commitments *)
Lemma out_val_notin p nh nc h :
  ~ In h (sum_keys p nh nc) -> out_val p nh nc h = 0 /\ out_val p None None h = 0.
Proof.
  unfold sum_keys, out_keys, out_val. rewrite !in_app_iff. intros H.
  cbn [opt_or]. rewrite !hget_notin by tauto. split; reflexivity.
Qed.

Lemma in_val_notin p nh nc h :
  ~ In h (sum_keys p nh nc) -> in_val p nh nc h = 0 /\ in_val p None None h = 0.
Proof.
  unfold sum_keys, in_keys, in_val. rewrite !in_app_iff, filter_In. intros H. cbn [opt_or].
  split.
  - destruct (hhas (oin (opt_or nh (hcur p))) h) eqn:E1; [|reflexivity].
    destruct (hhas (oin (opt_or nc (ccur p))) h) eqn:E2; [|reflexivity].
    exfalso. apply H. left. left. split; [apply hhas_in; exact E1 | reflexivity].
  - rewrite (hhas_notin (oin (hcur p)) h) by tauto. reflexivity.
Qed.

(** * sums over the channels *)

Lemma chan_ids_in n c : In c (chan_ids n) <-> c < N.of_nat n.
Proof.
  induction n as [|n IH]; cbn [chan_ids]; [split; [contradiction | lia]|].
  rewrite in_app_iff, IH. cbn [In]. lia.
Qed.

Lemma sum_map_ext {A} (f g : A -> N) l : (forall x, In x l -> f x = g x) -> sum_N (map f l) = sum_N (map g l).
Proof.
  induction l as [|a l IH]; intros H; cbn [map sum_N]; [reflexivity|].
  rewrite (H a (or_introl eq_refl)), IH; [reflexivity|]. intros x Hx. apply H. right. exact Hx.
Qed.

Lemma sum_map_app {A} (f : A -> N) l1 l2 : sum_N (map f (l1 ++ l2)) = sum_N (map f l1) + sum_N (map f l2).
Proof. rewrite map_app. apply sum_N_app. Qed.

(** replacing the entry of one channel *)
Lemma sum_replace n (f g : N -> N) ch :
  ch < N.of_nat n -> (forall c, c <> ch -> g c = f c) ->
  sum_N (map g (chan_ids n)) + f ch = sum_N (map f (chan_ids n)) + g ch.
Proof.
  induction n as [|n IH]; intros Hc Hg; [lia|].
  cbn [chan_ids]. rewrite !sum_map_app. cbn [map sum_N].
  destruct (N.eq_dec ch (N.of_nat n)) as [->|Hne].
  - assert (Hs : sum_N (map g (chan_ids n)) = sum_N (map f (chan_ids n))).
    { apply sum_map_ext. intros x Hx. apply Hg. apply chan_ids_in in Hx. lia. }
    lia.
  - rewrite (Hg (N.of_nat n)) by auto. specialize (IH ltac:(lia) Hg). lia.
Qed.

Lemma sum_ge_term n (f : N -> N) ch : ch < N.of_nat n -> f ch <= sum_N (map f (chan_ids n)).
Proof.
  induction n as [|n IH]; intros Hc; [lia|].
  cbn [chan_ids]. rewrite sum_map_app. cbn [map sum_N].
  destruct (N.eq_dec ch (N.of_nat n)) as [->|Hne]; [lia|]. specialize (IH ltac:(lia)). lia.
Qed.

(** * applying a summary *)

Lemma fold_apply p nh nc ch keys : forall k l,
  let r := fold_left (apply_one p nh nc ch) keys (k, l) in
  (forall h, fst r h = if existsb (N.eqb h) keys then true else k h) /\
  (forall h c, snd r h c =
     if existsb (N.eqb h) keys && (c =? ch) then (in_val p nh nc h, out_val p nh nc h) else l h c).
Proof.
  induction keys as [|x keys IH]; intros k l; cbn [fold_left existsb].
  - split; intros; reflexivity.
  - specialize (IH (upd k x true) (upd l x (upd (l x) ch (in_val p nh nc x, out_val p nh nc x)))).
    cbv zeta in IH. unfold apply_one at 2. cbn [fst snd].
    destruct IH as [IH1 IH2]. split.
    + intros h. rewrite IH1. unfold upd.
      destruct (existsb (N.eqb h) keys); [rewrite orb_true_r; reflexivity|].
      rewrite orb_false_r. destruct (h =? x); reflexivity.
    + intros h c. rewrite IH2. unfold upd.
      destruct (existsb (N.eqb h) keys) eqn:Ee; destruct (h =? x) eqn:Ex; destruct (c =? ch) eqn:Ec;
        cbn [andb orb]; try reflexivity; try (apply N.eqb_eq in Ex; subst; reflexivity).
Qed.

Lemma existsb_in h keys : existsb (N.eqb h) keys = true <-> In h keys.
Proof.
  rewrite existsb_exists. split.
  - intros [x [Hx He]]. apply N.eqb_eq in He. subst. exact Hx.
  - intros H. exists h. split; [exact H | apply N.eqb_refl].
Qed.

Section Node.
Variable nch : nat.
Variables max_fee_msat max_fee_pct : N.

Notation in_total := (in_total nch).
Notation out_total := (out_total nch).
Notation pstep := (pstep nch max_fee_msat max_fee_pct).

(** the ledger of every channel is the summary of its current commitments *)
Definition Sync (s : pnode) : Prop :=
  forall ch h, ch < N.of_nat nch ->
    led s h ch = (in_val (chans s ch) None None h, out_val (chans s ch) None None h).

(** no approved invoice is overpaid in flight *)
Definition NoOverpay (s : pnode) : Prop :=
  forall h a, inv s h = Some a -> out_total s h * 1000 <= in_total s h * 1000 + a + max_fee_msat.

Definition KnownInv (s : pnode) : Prop := forall h a, inv s h = Some a -> known s h = true.

Record PInv (s : pnode) : Prop := { pi_sync : Sync s; pi_pay : NoOverpay s; pi_known : KnownInv s }.

Lemma apply_led s ch nh nc h c :
  led (apply_payments s ch nh nc) h c =
  if existsb (N.eqb h) (sum_keys (chans s ch) nh nc) && (c =? ch)
  then (in_val (chans s ch) nh nc h, out_val (chans s ch) nh nc h) else led s h c.
Proof.
  unfold apply_payments.
  pose proof (fold_apply (chans s ch) nh nc ch (sum_keys (chans s ch) nh nc) (known s) (led s)) as [_ H].
  destruct (fold_left _ _ _) as [k l]. cbn [led fst snd] in *. apply H.
Qed.

Lemma apply_known s ch nh nc h :
  known (apply_payments s ch nh nc) h =
  if existsb (N.eqb h) (sum_keys (chans s ch) nh nc) then true else known s h.
Proof.
  unfold apply_payments.
  pose proof (fold_apply (chans s ch) nh nc ch (sum_keys (chans s ch) nh nc) (known s) (led s)) as [H _].
  destruct (fold_left _ _ _) as [k l]. cbn [known fst snd] in *. apply H.
Qed.

Lemma apply_inv s ch nh nc : inv (apply_payments s ch nh nc) = inv s.
Proof. unfold apply_payments. destruct (fold_left _ _ _). reflexivity. Qed.
Lemma apply_chans s ch nh nc : chans (apply_payments s ch nh nc) = chans s.
Proof. unfold apply_payments. destruct (fold_left _ _ _). reflexivity. Qed.

(** after applying, the row of channel [ch] is the new summary for every hash *)
Lemma apply_row s ch nh nc h :
  Sync s -> ch < N.of_nat nch ->
  led (apply_payments s ch nh nc) h ch =
  (in_val (chans s ch) nh nc h, out_val (chans s ch) nh nc h).
Proof.
  intros Hs Hc. rewrite apply_led, N.eqb_refl, andb_true_r.
  destruct (existsb (N.eqb h) (sum_keys (chans s ch) nh nc)) eqn:E; [reflexivity|].
  assert (Hn : ~ In h (sum_keys (chans s ch) nh nc)).
  { intros Hi. apply existsb_in in Hi. congruence. }
  rewrite (Hs ch h Hc).
  destruct (in_val_notin _ nh nc h Hn) as [-> ->]. destruct (out_val_notin _ nh nc h Hn) as [-> ->].
  reflexivity.
Qed.

Lemma apply_other s ch nh nc h c :
  c <> ch -> led (apply_payments s ch nh nc) h c = led s h c.
Proof.
  intros Hc. rewrite apply_led. replace (c =? ch) with false by (symmetry; apply N.eqb_neq; exact Hc).
  rewrite andb_false_r. reflexivity.
Qed.

(** totals after an update of channel [ch] are exactly what the validation looked at *)
Lemma totals_after s ch nh nc h :
  Sync s -> ch < N.of_nat nch ->
  let s' := apply_payments s ch nh nc in
  (in_total s' h, out_total s' h) =
  upd_totals nch s h ch (in_val (chans s ch) nh nc h) (out_val (chans s ch) nh nc h).
Proof.
  intros Hs Hc s'. unfold upd_totals, Payments.in_total, Payments.out_total.
  pose proof (sum_replace nch (fun c => fst (led s h c)) (fun c => fst (led s' h c)) ch Hc) as Hi.
  pose proof (sum_replace nch (fun c => snd (led s h c)) (fun c => snd (led s' h c)) ch Hc) as Ho.
  cbv beta in Hi, Ho.
  assert (Hoth : forall c, c <> ch -> led s' h c = led s h c) by (intros; apply apply_other; assumption).
  specialize (Hi ltac:(intros c Hn; rewrite Hoth by exact Hn; reflexivity)).
  specialize (Ho ltac:(intros c Hn; rewrite Hoth by exact Hn; reflexivity)).
  pose proof (sum_ge_term nch (fun c => fst (led s h c)) ch Hc) as Gi.
  pose proof (sum_ge_term nch (fun c => snd (led s h c)) ch Hc) as Go.
  cbv beta in Gi, Go.
  unfold s' in *. rewrite (apply_row s ch nh nc h Hs Hc) in Hi, Ho. cbn [fst snd] in Hi, Ho.
  f_equal; lia.
Qed.

Lemma balance_ok_bound i o a :
  balance_ok max_fee_msat max_fee_pct i o (Some a) = true -> o <= i + a + max_fee_msat.
Proof.
  unfold balance_ok. destruct (i + (a + max_fee_msat) <? o) eqn:E; [discriminate|]. intros _. lia.
Qed.

Lemma balance_ok_none i o :
  balance_ok max_fee_msat max_fee_pct i o None = true -> o <= i.
Proof.
  unfold balance_ok. destruct (i + 0 <? o) eqn:E; [discriminate|]. intros _. lia.
Qed.

Lemma in_total_set_chan s ch p h : in_total (set_chan s ch p) h = in_total s h.
Proof. reflexivity. Qed.
Lemma out_total_set_chan s ch p h : out_total (set_chan s ch p) h = out_total s h.
Proof. reflexivity. Qed.

(** an accepted update keeps the invariant; [p'] is the channel after the update *)
Lemma update_keeps s ch nh nc p' :
  PInv s -> ch < N.of_nat nch ->
  validate_payments nch max_fee_msat max_fee_pct s ch nh nc = true ->
  (forall h, in_val p' None None h = in_val (chans s ch) nh nc h) ->
  (forall h, out_val p' None None h = out_val (chans s ch) nh nc h) ->
  PInv (set_chan (apply_payments s ch nh nc) ch p').
Proof.
  intros [Hs Hp Hk] Hc Hv Hin Hout. constructor.
  - intros c h Hcr. unfold set_chan. cbn [led chans]. unfold upd.
    destruct (c =? ch) eqn:E.
    + apply N.eqb_eq in E. subst c. rewrite apply_row by assumption. rewrite Hin, Hout. reflexivity.
    + apply N.eqb_neq in E. rewrite apply_other by exact E. rewrite apply_chans. apply Hs. exact Hcr.
  - intros h a Ha. unfold set_chan in Ha. cbn [inv] in Ha. rewrite apply_inv in Ha.
    rewrite in_total_set_chan, out_total_set_chan.
    destruct (existsb (N.eqb h) (sum_keys (chans s ch) nh nc)) eqn:E.
    + (* the hash was looked at by the validation *)
      apply existsb_in in E. unfold validate_payments in Hv. rewrite forallb_forall in Hv.
      specialize (Hv h E). unfold hash_ok in Hv. rewrite (Hk h a Ha), Ha in Hv.
      cbn [andb] in Hv.
      pose proof (totals_after s ch nh nc h Hs Hc) as Ht. cbv zeta in Ht.
      destruct (upd_totals nch s h ch _ _) as [i o]. inversion Ht as [[Hi Ho]]. rewrite Hi, Ho.
      rewrite orb_false_r in Hv. apply balance_ok_bound in Hv. lia.
    + (* untouched hash: same totals as before *)
      assert (Hsame : forall c, led (apply_payments s ch nh nc) h c = led s h c).
      { intros c. rewrite apply_led, E. reflexivity. }
      unfold Payments.in_total, Payments.out_total.
      rewrite (sum_map_ext (fun c => fst (led (apply_payments s ch nh nc) h c)) (fun c => fst (led s h c)))
        by (intros; rewrite Hsame; reflexivity).
      rewrite (sum_map_ext (fun c => snd (led (apply_payments s ch nh nc) h c)) (fun c => snd (led s h c)))
        by (intros; rewrite Hsame; reflexivity).
      apply (Hp h a Ha).
  - intros h a Ha. unfold set_chan in *. cbn [inv known] in *. rewrite apply_inv in Ha.
    rewrite apply_known. destruct (existsb _ _); [reflexivity | apply (Hk h a Ha)].
Qed.

(** a channel update that changes only the pending holder commitment *)
Lemma pending_keeps s ch p' :
  PInv s -> hcur p' = hcur (chans s ch) -> ccur p' = ccur (chans s ch) -> PInv (set_chan s ch p').
Proof.
  intros [Hs Hp Hk] H1 H2. constructor.
  - intros c h Hc. unfold set_chan. cbn [led chans]. unfold upd.
    destruct (c =? ch) eqn:E; [|apply Hs; exact Hc].
    apply N.eqb_eq in E. subst c. rewrite (Hs ch h Hc). unfold in_val, out_val. rewrite H1, H2. reflexivity.
  - exact Hp.
  - exact Hk.
Qed.

(** ** restart *)

Lemma restore_fold l0 : forall (chs : list N) k l,
  let r := fold_left (restore_chan) (map (fun c => (c, chans l0 c)) chs) (k, l) in
  NoDup chs ->
  (forall h, fst r h = true -> k h = true \/ exists c, In c chs /\ In h (sum_keys (chans l0 c) None None)) /\
  (forall h, k h = true -> fst r h = true) /\
  (forall h c, snd r h c =
     if existsb (N.eqb c) chs && existsb (N.eqb h) (sum_keys (chans l0 c) None None)
     then (in_val (chans l0 c) None None h, out_val (chans l0 c) None None h) else l h c).
Proof.
  induction chs as [|x chs IH]; intros k l; cbn [map fold_left existsb]; intros Hnd.
  - split; [intros h H; left; exact H|]. split; [auto|]. intros; reflexivity.
  - inversion Hnd as [|? ? Hx Hnd']; subst.
    assert (Hrc : restore_chan (k, l) (x, chans l0 x) =
                  fold_left (apply_one (chans l0 x) None None x) (sum_keys (chans l0 x) None None) (k, l))
      by reflexivity.
    rewrite Hrc. clear Hrc.
    pose proof (fold_apply (chans l0 x) None None x (sum_keys (chans l0 x) None None) k l) as [F1 F2].
    destruct (fold_left (apply_one (chans l0 x) None None x) _ (k, l)) as [k1 l1]. cbn [fst snd] in F1, F2.
    specialize (IH k1 l1 Hnd'). cbv zeta in IH. destruct IH as [I1 [I2 I3]].
    split; [|split].
    + intros h Hh. destruct (I1 h Hh) as [Hk1|[c [Hc Hin]]].
      * rewrite F1 in Hk1. destruct (existsb (N.eqb h) _) eqn:E; [|left; exact Hk1].
        right. exists x. split; [left; reflexivity | apply existsb_in; exact E].
      * right. exists c. split; [right; exact Hc | exact Hin].
    + intros h Hh. apply I2. rewrite F1. destruct (existsb _ _); [reflexivity | exact Hh].
    + intros h c. rewrite I3, F2.
      destruct (c =? x) eqn:Ecx.
      * apply N.eqb_eq in Ecx. subst c.
        assert (Hex : existsb (N.eqb x) chs = false).
        { destruct (existsb (N.eqb x) chs) eqn:E; [|reflexivity]. apply existsb_in in E. contradiction. }
        rewrite Hex. cbn [andb orb]. rewrite andb_true_r. reflexivity.
      * cbn [orb]. rewrite andb_false_r.
        destruct (existsb (N.eqb c) chs && _); reflexivity.
Qed.

Lemma NoDup_snoc {A} (l : list A) x : NoDup l -> ~ In x l -> NoDup (l ++ [x]).
Proof.
  induction l as [|a l IH]; intros Hn Hx; cbn [app].
  - constructor; [intros [] | constructor].
  - inversion Hn as [|? ? Ha Hl]; subst. constructor.
    + rewrite in_app_iff. cbn [In]. intros [H|[H|[]]]; [contradiction|]. subst. apply Hx. left. reflexivity.
    + apply IH; [exact Hl|]. intros H. apply Hx. right. exact H.
Qed.

Lemma chan_ids_nodup n : NoDup (chan_ids n).
Proof.
  induction n as [|n IH]; cbn [chan_ids]; [constructor|].
  apply NoDup_snoc; [exact IH|]. intros Hc. apply chan_ids_in in Hc. lia.
Qed.

Lemma restore_keeps s : PInv s -> PInv (restore nch s).
Proof.
  intros [Hs Hp Hk]. unfold restore.
  set (k0 := fun h => match inv s h with Some _ => true | None => pre s h end).
  pose proof (restore_fold s (chan_ids nch) k0 (fun _ _ => (0, 0)) (chan_ids_nodup nch)) as [R1 [R2 R3]].
  destruct (fold_left _ _ _) as [k l]. cbn [fst snd] in *.
  assert (Hled : forall h c, c < N.of_nat nch -> l h c = led s h c).
  { intros h c Hc. rewrite R3.
    assert (He : existsb (N.eqb c) (chan_ids nch) = true) by (apply existsb_in, chan_ids_in; exact Hc).
    rewrite He. cbn [andb]. rewrite (Hs c h Hc).
    destruct (existsb (N.eqb h) (sum_keys (chans s c) None None)) eqn:E; [reflexivity|].
    assert (Hn : ~ In h (sum_keys (chans s c) None None)).
    { intros Hi. apply existsb_in in Hi. congruence. }
    destruct (in_val_notin _ None None h Hn) as [-> _]. destruct (out_val_notin _ None None h Hn) as [-> _].
    reflexivity. }
  constructor.
  - intros c h Hc. cbn [led chans]. rewrite Hled by exact Hc. apply Hs. exact Hc.
  - intros h a Ha. cbn [inv] in Ha. unfold Payments.in_total, Payments.out_total. cbn [led].
    rewrite (sum_map_ext (fun c => fst (l h c)) (fun c => fst (led s h c)))
      by (intros c Hc; apply chan_ids_in in Hc; rewrite Hled by exact Hc; reflexivity).
    rewrite (sum_map_ext (fun c => snd (l h c)) (fun c => snd (led s h c)))
      by (intros c Hc; apply chan_ids_in in Hc; rewrite Hled by exact Hc; reflexivity).
    apply (Hp h a Ha).
  - intros h a Ha. cbn [inv known] in *. apply R2. unfold k0. rewrite Ha. reflexivity.
Qed.

(** ** one request *)

(** invoices are approved before the payment is attempted: an approval for a hash that has
    none yet arrives while nothing is in flight towards it *)
Definition fresh_invoice (s : pnode) (o : pop) : Prop :=
  match o with
  | PAddInvoice h _ => inv s h = None -> out_total s h = 0
  | _ => True
  end.

Lemma in_range_lt ch : in_range nch ch = true -> ch < N.of_nat nch.
Proof. unfold in_range. intros H. lia. Qed.

Theorem pstep_keeps s o : PInv s -> fresh_invoice s o -> PInv (fst (pstep s o)).
Proof.
  intros HI Hf. destruct o as [h a|ch c ok|ch c ok|ch|hf| |]; cbn [Payments.pstep fresh_invoice] in *.
  - destruct (inv s h) as [a0|] eqn:Ei; cbn [fst]; [exact HI|].
    destruct HI as [Hs Hp Hk]. specialize (Hf eq_refl). constructor.
    + exact Hs.
    + intros h' a' Ha. cbn [inv] in Ha. unfold upd in Ha.
      change (Payments.in_total nch (mkPN (upd (inv s) h (Some a)) (upd (known s) h true) (led s) (chans s) (pre s)) h')
        with (in_total s h').
      change (Payments.out_total nch (mkPN (upd (inv s) h (Some a)) (upd (known s) h true) (led s) (chans s) (pre s)) h')
        with (out_total s h').
      destruct (h' =? h) eqn:E.
      * apply N.eqb_eq in E. subst h'. rewrite Hf. lia.
      * apply (Hp h' a' Ha).
    + intros h' a' Ha. cbn [inv known] in *. unfold upd in *.
      destruct (h' =? h); [reflexivity | apply (Hk h' a' Ha)].
  - destruct (negb (in_range nch ch) || negb ok) eqn:E1; cbn [fst]; [exact HI|].
    destruct (negb (validate_payments nch max_fee_msat max_fee_pct s ch None (Some c))) eqn:E2; cbn [fst]; [exact HI|].
    apply orb_false_iff in E1. destruct E1 as [E1 _]. apply negb_false_iff in E1, E2.
    apply update_keeps; try assumption; [apply in_range_lt; exact E1 | |]; intros h; reflexivity.
  - destruct (negb (in_range nch ch) || negb ok) eqn:E1; cbn [fst]; [exact HI|].
    destruct (negb (validate_payments nch max_fee_msat max_fee_pct s ch (Some c) None)) eqn:E2; cbn [fst]; [exact HI|].
    apply pending_keeps; [exact HI | reflexivity | reflexivity].
  - destruct (negb (in_range nch ch)) eqn:E1; cbn [fst]; [exact HI|].
    destruct (hnxt (chans s ch)) as [c|] eqn:En; cbn [fst]; [|exact HI].
    destruct (negb (validate_payments nch max_fee_msat max_fee_pct s ch (Some c) None)) eqn:E2; cbn [fst]; [exact HI|].
    apply negb_false_iff in E1, E2.
    apply update_keeps; try assumption; [apply in_range_lt; exact E1 | |]; intros h; reflexivity.
  - cbn [fst]. destruct HI as [Hs Hp Hk]. constructor; [exact Hs | exact Hp | exact Hk].
  - (* heartbeat: only records without approval are dropped *)
    cbn [fst]. destruct HI as [Hs Hp Hk]. constructor.
    + exact Hs.
    + exact Hp.
    + intros h a Ha. cbn [inv known] in *. rewrite (Hk h a Ha).
      unfold prunable. rewrite Ha. reflexivity.
  - cbn [fst]. apply restore_keeps. exact HI.
Qed.

Lemma PInv_init : PInv pinit.
Proof.
  constructor.
  - intros ch h _. reflexivity.
  - intros h a H. discriminate.
  - intros h a H. discriminate.
Qed.

(** histories in which every invoice approval is fresh *)
Fixpoint fresh_history (s : pnode) (ops : list pop) : Prop :=
  match ops with
  | [] => True
  | o :: r => fresh_invoice s o /\ fresh_history (fst (pstep s o)) r
  end.

Theorem prun_keeps ops : forall s, PInv s -> fresh_history s ops -> PInv (prun nch max_fee_msat max_fee_pct s ops).
Proof.
  induction ops as [|o ops IH]; intros s HI Hf; cbn [prun]; [exact HI|].
  destruct Hf as [Hf Hr]. apply IH; [apply pstep_keeps; assumption | exact Hr].
Qed.

(** ** preimages: a payment record that carries a preimage is never lost by a restart *)

Definition PreKnown (s : pnode) : Prop := forall h, pre s h = true -> known s h = true.

Lemma apply_payments_known s ch nh nc h :
  known s h = true -> known (apply_payments s ch nh nc) h = true.
Proof.
  intros Hk. unfold apply_payments.
  pose proof (fold_apply (chans s ch) nh nc ch (sum_keys (chans s ch) nh nc) (known s) (led s)) as [F1 _].
  destruct (fold_left _ _ _) as [k l]. cbn [fst] in F1. cbn [known]. rewrite F1.
  destruct (existsb _ _); [reflexivity | exact Hk].
Qed.

Lemma apply_payments_pre s ch nh nc : pre (apply_payments s ch nh nc) = pre s.
Proof.
  unfold apply_payments. destruct (fold_left _ _ _) as [k l]. reflexivity.
Qed.

Lemma restore_known_of_pre s h : pre s h = true -> known (restore nch s) h = true.
Proof.
  intros Hp. unfold restore.
  set (k0 := fun h => match inv s h with Some _ => true | None => pre s h end).
  pose proof (restore_fold s (chan_ids nch) k0 (fun _ _ => (0, 0)) (chan_ids_nodup nch)) as [_ [R2 _]].
  destruct (fold_left _ _ _) as [k l]. cbn [fst known] in *. apply R2. unfold k0.
  destruct (inv s h); [reflexivity | exact Hp].
Qed.

Lemma restore_pre s : pre (restore nch s) = pre s.
Proof. unfold restore. destruct (fold_left _ _ _) as [k l]. reflexivity. Qed.

Lemma pstep_pre_known s o : PreKnown s -> PreKnown (fst (pstep s o)).
Proof.
  intros HP. destruct o as [h a|ch c ok|ch c ok|ch|hf| |]; cbn [Payments.pstep].
  - destruct (inv s h); cbn [fst]; [exact HP|]. intros x Hx. cbn [pre known] in *. unfold upd.
    destruct (x =? h); [reflexivity | apply HP; exact Hx].
  - destruct (negb (in_range nch ch) || negb ok); cbn [fst]; [exact HP|].
    destruct (negb (validate_payments nch max_fee_msat max_fee_pct s ch None (Some c))); cbn [fst]; [exact HP|].
    intros x Hx. unfold set_chan in *. cbn [pre known] in *. rewrite apply_payments_pre in Hx.
    apply apply_payments_known, HP, Hx.
  - destruct (negb (in_range nch ch) || negb ok); cbn [fst]; [exact HP|].
    destruct (negb (validate_payments nch max_fee_msat max_fee_pct s ch (Some c) None)); cbn [fst]; exact HP.
  - destruct (negb (in_range nch ch)); cbn [fst]; [exact HP|].
    destruct (hnxt (chans s ch)) as [c|]; cbn [fst]; [|exact HP].
    destruct (negb (validate_payments nch max_fee_msat max_fee_pct s ch (Some c) None)); cbn [fst]; [exact HP|].
    intros x Hx. unfold set_chan in *. cbn [pre known] in *. rewrite apply_payments_pre in Hx.
    apply apply_payments_known, HP, Hx.
  - cbn [fst]. intros x Hx. cbn [pre known] in *. apply orb_true_iff in Hx. destruct Hx as [Hx|Hx]; [apply HP; exact Hx|].
    apply andb_true_iff in Hx. destruct Hx as [E Hk]. apply N.eqb_eq in E. subst x. exact Hk.
  - cbn [fst]. intros x Hx. cbn [pre known] in *. apply andb_true_iff in Hx. destruct Hx as [Hx Hn].
    rewrite (HP x Hx), Hn. reflexivity.
  - cbn [fst]. intros x Hx. rewrite restore_pre in Hx. apply restore_known_of_pre. exact Hx.
Qed.

Lemma PreKnown_init : PreKnown pinit.
Proof. intros h H. discriminate. Qed.

Lemma prun_pre_known ops : forall s, PreKnown s -> PreKnown (prun nch max_fee_msat max_fee_pct s ops).
Proof.
  induction ops as [|o ops IH]; intros s HP; cbn [prun]; [exact HP|].
  apply IH, pstep_pre_known, HP.
Qed.

(** a preimage handed over for a hash that has a payment record is recorded, and the record and
    its preimage are there after every later restart, as long as value is in flight or an
    approval exists (a record that carries nothing is pruned by the heartbeat) *)
Lemma fulfil_then_restart s h :
  known s h = true ->
  let s1 := fst (pstep s (PFulfil h)) in
  let s2 := fst (pstep s1 PRestart) in
  pre s1 h = true /\ pre s2 h = true /\ known s2 h = true.
Proof.
  intros Hk s1 s2.
  assert (H1 : pre s1 h = true).
  { subst s1. cbn [Payments.pstep fst pre]. rewrite N.eqb_refl, Hk. apply orb_true_r. }
  split; [exact H1|]. subst s2. cbn [Payments.pstep fst]. rewrite restore_pre.
  split; [exact H1 | apply restore_known_of_pre; exact H1].
Qed.

(** an update that brings outgoing value for a hash without invoice and without a payment
    record is accepted only if that value is covered by incoming value in the same update *)
Lemma unbacked_refused s ch nh nc h :
  validate_payments nch max_fee_msat max_fee_pct s ch nh nc = true ->
  inv s h = None -> known s h = false ->
  out_val (chans s ch) nh nc h <= in_val (chans s ch) nh nc h.
Proof.
  intros Hv Hi Hk.
  destruct (existsb (N.eqb h) (sum_keys (chans s ch) nh nc)) eqn:E.
  - apply existsb_in in E. unfold validate_payments in Hv. rewrite forallb_forall in Hv.
    specialize (Hv h E). unfold hash_ok in Hv. rewrite Hk, Hi in Hv. cbn [andb] in Hv.
    rewrite orb_false_r in Hv. apply balance_ok_none in Hv. lia.
  - assert (Hn : ~ In h (sum_keys (chans s ch) nh nc)).
    { intros Hin. apply existsb_in in Hin. congruence. }
    destruct (out_val_notin _ nh nc h Hn) as [-> _]. lia.
Qed.

End Node.
