(** Ordered sets of outpoints as strictly sorted lists (the tracker's OrderedSet<OutPoint>):
    membership laws of insert / remove / union / difference, sortedness, extensionality. *)
From Coq Require Import Sorted.
From VLS Require Import Model.Monitor.

Lemma op_eqb_eq (a b : outpoint) : op_eqb a b = true <-> a = b.
Proof.
  unfold op_eqb. destruct a as [a1 a2], b as [b1 b2]; cbn [fst snd].
  rewrite andb_true_iff, !N.eqb_eq. split.
  - intros [-> ->]; reflexivity.
  - intros H; inversion H; auto.
Qed.
Lemma op_eqb_refl a : op_eqb a a = true.
Proof. apply op_eqb_eq; reflexivity. Qed.
Lemma op_eqb_neq (a b : outpoint) : op_eqb a b = false <-> a <> b.
Proof.
  split.
  - intros H E. apply op_eqb_eq in E. congruence.
  - intros H. destruct (op_eqb a b) eqn:E; [apply op_eqb_eq in E; contradiction | reflexivity].
Qed.
Lemma op_eqb_sym a b : op_eqb a b = op_eqb b a.
Proof.
  destruct (op_eqb a b) eqn:E.
  - apply op_eqb_eq in E; subst. symmetry; apply op_eqb_refl.
  - apply op_eqb_neq in E. symmetry. apply op_eqb_neq. congruence.
Qed.
Lemma op_dec (a b : outpoint) : {a = b} + {a <> b}.
Proof. destruct (op_eqb a b) eqn:E; [left; apply op_eqb_eq; exact E | right; apply op_eqb_neq; exact E]. Qed.

Lemma mem_op_In o l : mem_op o l = true <-> In o l.
Proof.
  unfold mem_op. rewrite existsb_exists. split.
  - intros [x [Hx E]]. apply op_eqb_eq in E. subst; exact Hx.
  - intros H. exists o. split; [exact H | apply op_eqb_refl].
Qed.
Lemma mem_op_nIn o l : mem_op o l = false <-> ~ In o l.
Proof.
  split.
  - intros H HI. apply mem_op_In in HI. congruence.
  - intros H. destruct (mem_op o l) eqn:E; [apply mem_op_In in E; contradiction | reflexivity].
Qed.
Lemma mem_N_In x l : mem_N x l = true <-> In x l.
Proof.
  unfold mem_N. rewrite existsb_exists. split.
  - intros [y [Hy E]]. apply N.eqb_eq in E. subst; exact Hy.
  - intros H. exists x. split; [exact H | apply N.eqb_refl].
Qed.
Lemma mem_N_nIn x l : mem_N x l = false <-> ~ In x l.
Proof.
  split.
  - intros H HI. apply mem_N_In in HI. congruence.
  - intros H. destruct (mem_N x l) eqn:E; [apply mem_N_In in E; contradiction | reflexivity].
Qed.

(** * the order *)
Definition olt (a b : outpoint) : Prop := ocmp a b = Lt.

Lemma ocmp_eq a b : ocmp a b = Eq <-> a = b.
Proof.
  unfold ocmp. destruct a as [a1 a2], b as [b1 b2]; cbn [fst snd].
  destruct (a1 ?= b1) eqn:E1.
  - apply N.compare_eq_iff in E1. subst. rewrite N.compare_eq_iff. split; [intros ->; reflexivity | intros H; inversion H; reflexivity].
  - split; [discriminate | intros H; inversion H; subst; rewrite N.compare_refl in E1; discriminate].
  - split; [discriminate | intros H; inversion H; subst; rewrite N.compare_refl in E1; discriminate].
Qed.
Lemma ocmp_lt a b : ocmp a b = Lt <-> (fst a < fst b \/ (fst a = fst b /\ snd a < snd b)).
Proof.
  unfold ocmp. destruct (N.compare_spec (fst a) (fst b)) as [E1|E1|E1].
  - rewrite N.compare_lt_iff. split.
    + intros H. right. split; assumption.
    + intros [H | [_ H]]; [lia | exact H].
  - split; [intros _; left; exact E1 | reflexivity].
  - split; [discriminate | intros [H | [H _]]; lia].
Qed.
Lemma ocmp_gt a b : ocmp a b = Gt <-> ocmp b a = Lt.
Proof.
  rewrite ocmp_lt. unfold ocmp. destruct (N.compare_spec (fst a) (fst b)) as [E1|E1|E1].
  - rewrite N.compare_gt_iff. split.
    + intros H. right. split; [symmetry; exact E1 | exact H].
    + intros [H | [_ H]]; [lia | exact H].
  - split; [discriminate | intros [H | [H _]]; lia].
  - split; [intros _; left; exact E1 | reflexivity].
Qed.
Lemma olt_trans a b c : olt a b -> olt b c -> olt a c.
Proof. unfold olt. rewrite !ocmp_lt. intros [H1 | [H1 H1']] [H2 | [H2 H2']]; [left | left | left | right; split]; lia. Qed.
Lemma olt_irrefl a : ~ olt a a.
Proof. unfold olt. rewrite ocmp_lt. intros [H | [_ H]]; lia. Qed.

Definition osorted (l : list outpoint) : Prop := StronglySorted olt l.

Lemma oinsert_in x y l : In x (oinsert y l) <-> x = y \/ In x l.
Proof.
  induction l as [|z r IH]; cbn [oinsert].
  - cbn [In]. intuition.
  - destruct (ocmp y z) eqn:E.
    + apply ocmp_eq in E. subst. cbn [In]. intuition.
    + cbn [In]. intuition.
    + cbn [In]. rewrite IH. intuition.
Qed.

Lemma oinsert_sorted x l : osorted l -> osorted (oinsert x l).
Proof.
  unfold osorted. induction l as [|z r IH]; intros H; cbn [oinsert].
  - constructor; [constructor | constructor].
  - inversion H as [|? ? Hr Hz]; subst. destruct (ocmp x z) eqn:E.
    + exact H.
    + constructor; [exact H|]. constructor; [exact E|].
      rewrite Forall_forall in *. intros w Hw. eapply olt_trans; [exact E | apply Hz; exact Hw].
    + constructor; [apply IH; exact Hr|]. rewrite Forall_forall in *. intros w Hw.
      apply oinsert_in in Hw. destruct Hw as [-> | Hw]; [apply ocmp_gt; exact E | apply Hz; exact Hw].
Qed.

Lemma oremove_in x y l : In x (oremove y l) <-> In x l /\ x <> y.
Proof.
  unfold oremove. rewrite filter_In. rewrite negb_true_iff, op_eqb_neq. intuition.
Qed.

Lemma filter_sorted (f : outpoint -> bool) l : osorted l -> osorted (filter f l).
Proof.
  unfold osorted. induction l as [|z r IH]; intros H; cbn [filter]; [constructor|].
  inversion H as [|? ? Hr Hz]; subst. destruct (f z).
  - constructor; [apply IH; exact Hr|]. rewrite Forall_forall in *. intros w Hw.
    apply filter_In in Hw. apply Hz. tauto.
  - apply IH; exact Hr.
Qed.
Lemma oremove_sorted x l : osorted l -> osorted (oremove x l).
Proof. apply filter_sorted. Qed.

Lemma ounion_in x xs : forall w, In x (ounion w xs) <-> In x w \/ In x xs.
Proof.
  unfold ounion. induction xs as [|y r IH]; intros w; cbn [fold_left].
  - cbn [In]. intuition.
  - rewrite IH, oinsert_in. cbn [In]. intuition.
Qed.
Lemma ounion_sorted xs : forall w, osorted w -> osorted (ounion w xs).
Proof.
  unfold ounion. induction xs as [|y r IH]; intros w H; cbn [fold_left]; [exact H|].
  apply IH. apply oinsert_sorted. exact H.
Qed.
Lemma odiff_in x xs : forall w, In x (odiff w xs) <-> In x w /\ ~ In x xs.
Proof.
  unfold odiff. induction xs as [|y r IH]; intros w; cbn [fold_left].
  - cbn [In]. intuition.
  - rewrite IH, oremove_in. cbn [In]. intuition.
Qed.
Lemma odiff_sorted xs : forall w, osorted w -> osorted (odiff w xs).
Proof.
  unfold odiff. induction xs as [|y r IH]; intros w H; cbn [fold_left]; [exact H|].
  apply IH. apply oremove_sorted. exact H.
Qed.

Lemma osorted_ext a : forall b, osorted a -> osorted b -> (forall x, In x a <-> In x b) -> a = b.
Proof.
  unfold osorted. induction a as [|x a IH]; intros b Ha Hb H.
  - destruct b as [|y b]; [reflexivity|]. exfalso. apply (H y). left; reflexivity.
  - destruct b as [|y b]; [exfalso; apply (H x); left; reflexivity|].
    inversion Ha as [|? ? Ha' Hxa]; inversion Hb as [|? ? Hb' Hyb]; subst.
    rewrite Forall_forall in Hxa, Hyb.
    assert (x = y) as ->.
    { destruct (proj1 (H x) (or_introl eq_refl)) as [E | Hxb]; [auto|].
      destruct (proj2 (H y) (or_introl eq_refl)) as [E | Hya]; [auto|].
      exfalso. apply (olt_irrefl x). eapply olt_trans; [apply Hxa; exact Hya | apply Hyb; exact Hxb]. }
    f_equal. apply IH; [exact Ha' | exact Hb' |].
    intros z. split; intros Hz.
    + destruct (proj1 (H z) (or_intror Hz)) as [E | Hzb]; [|exact Hzb].
      subst. exfalso. apply (olt_irrefl z). apply Hxa. exact Hz.
    + destruct (proj2 (H z) (or_intror Hz)) as [E | Hza]; [|exact Hza].
      subst. exfalso. apply (olt_irrefl z). apply Hyb. exact Hz.
Qed.

Lemma osorted_nil : osorted [].
Proof. constructor. Qed.
