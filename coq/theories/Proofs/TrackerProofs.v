(** Proofs about [Model.Tracker]: an accepted add/remove is a validated block, a refusal
    changes nothing, a later correct request still succeeds (C13). *)
From VLS Require Import Base.U64 Model.Tracker.
From Coq Require Import ZifyBool ZifyN ZifyNat.

(** ** small facts *)

Lemma hdr_eqb_eq a b : hdr_eqb a b = true -> a = b.
Proof.
  destruct a as [a1 a2 a3 a4 a5], b as [b1 b2 b3 b4 b5]. unfold hdr_eqb. cbn [hid hprev hpow hbits htime].
  rewrite !andb_true_iff, !N.eqb_eq, Bool.eqb_true_iff.
  intros [[[[-> ->] ->] ->] ->]. reflexivity.
Qed.

Lemma half_of_majority c p : majority_ok c p = true -> half_attesting c p.
Proof.
  unfold majority_ok, half_attesting, required_majority. intros H.
  apply N.leb_le in H.
  set (n := N.of_nat (length (trusted c))) in *.
  pose proof (N.mul_succ_div_gt (n + 1) 2 ltac:(lia)) as Hd.
  set (q := (n + 1) / 2) in *. clearbody q. lia.
Qed.

(** the quorum looks at which oracles attest, not at how many attestations there are *)
Lemma key_matches_ext c p p' :
  (forall k, attests p k = attests p' k) -> key_matches c p = key_matches c p'.
Proof.
  intros H. unfold key_matches. f_equal. f_equal.
  apply filter_ext. exact H.
Qed.

Lemma attests_in p k : attests p k = true <-> In k (attesters p).
Proof.
  unfold attests. rewrite existsb_exists. split.
  - intros [x [Hin He]]. apply N.eqb_eq in He. subst. exact Hin.
  - intros Hin. exists k. split; [exact Hin | apply N.eqb_refl].
Qed.

(** ... so only the *set* of attesting keys matters: repeating an attestation, or reordering
    them, changes nothing *)
Lemma key_matches_set c p p' :
  (forall k, In k (attesters p) <-> In k (attesters p')) -> key_matches c p = key_matches c p'.
Proof.
  intros H. apply key_matches_ext. intros k.
  destruct (attests p k) eqn:E1, (attests p' k) eqn:E2; try reflexivity.
  - apply attests_in in E1. apply H in E1. apply attests_in in E1. congruence.
  - apply attests_in in E2. apply H in E2. apply attests_in in E2. congruence.
Qed.

Lemma filter_len_le {A} (f : A -> bool) l : (length (filter f l) <= length l)%nat.
Proof. induction l as [|x l IH]; cbn [filter length]; [lia|]. destruct (f x); cbn [length]; lia. Qed.

Lemma key_matches_le_trusted c p : key_matches c p <= N.of_nat (length (trusted c)).
Proof.
  unfold key_matches. pose proof (filter_len_le (attests p) (trusted c)). lia.
Qed.

Lemma proof_rule_sound c f p r :
  proof_rule c f p r = true ->
  f = 0 \/ warn c = true \/ (pok p r = true /\ half_attesting c p).
Proof.
  unfold proof_rule. rewrite !orb_true_iff, andb_true_iff, N.eqb_eq.
  intros [[H|H]|[H1 H2]]; [left; exact H | right; left; exact H |
                           right; right; split; [exact H1 | apply half_of_majority; exact H2]].
Qed.

Lemma validate_ok c ht prev hd p r :
  validate c ht prev hd p r = VOk ->
  hprev (fst hd) = hid (fst prev) /\ hpow (fst hd) = true /\
  chain_rule c ht (fst prev) (fst hd) = ROk /\ proof_rule c (snd prev) p r = true.
Proof.
  unfold validate.
  destruct (hprev (fst hd) =? hid (fst prev)) eqn:Hl; cbn [negb]; [|discriminate].
  destruct (hpow (fst hd)) eqn:Hp; cbn [negb]; [|discriminate].
  destruct (chain_rule c ht (fst prev) (fst hd)) eqn:Hc; try discriminate.
  destruct (proof_rule c (snd prev) p r) eqn:Hr; [|discriminate].
  intros _. apply N.eqb_eq in Hl. auto.
Qed.

Lemma validate_complete c ht prev hd p r :
  hprev (fst hd) = hid (fst prev) -> hpow (fst hd) = true ->
  chain_rule c ht (fst prev) (fst hd) = ROk -> proof_rule c (snd prev) p r = true ->
  validate c ht prev hd p r = VOk.
Proof.
  intros Hl Hp Hc Hr. unfold validate.
  rewrite Hl, N.eqb_refl, Hp, Hc, Hr. reflexivity.
Qed.

Lemma block_valid_of_validate c ht prev hd p r :
  validate c ht prev hd p r = VOk -> block_valid c ht prev hd p r.
Proof.
  intros Hv. apply validate_ok in Hv. destruct Hv as (Hl & Hp & Hc & Hr).
  unfold block_valid. repeat split; try assumption.
  apply (proof_rule_sound c _ p r Hr).
Qed.

(** under a filter that does not downgrade the tag, only the documented bypass is left *)
Lemma block_valid_strict c ht prev hd p r :
  warn c = false -> block_valid c ht prev hd p r ->
  snd prev = 0 \/ (pok p r = true /\ half_attesting c p).
Proof.
  intros Hw (_ & _ & _ & [H|[H|H]]); [left; exact H | congruence | right; exact H].
Qed.

Lemma supplied_check_none c s prev :
  supplied_check c s prev = None ->
  match hdrs s with h0 :: _ => prev = h0 | [] => allow_deep c = true end.
Proof.
  unfold supplied_check. destruct (hdrs s) as [|h0 t].
  - destruct (allow_deep c); [reflexivity | discriminate].
  - destruct (hdr_eqb (fst prev) (fst h0)) eqn:He; cbn [negb]; [|discriminate].
    destruct (snd prev =? snd h0) eqn:Hf; cbn [negb]; [|discriminate].
    intros _. apply hdr_eqb_eq in He. apply N.eqb_eq in Hf.
    destruct prev, h0. cbn [fst snd] in *. subst. reflexivity.
Qed.

(** the slot updates keep key and txid watches; [set_mon] keeps all watches *)
Lemma zipw_set_mon_watch sls ms :
  map (fun sl => (skey sl, stxw sl, swatch sl, sseen sl)) (zipw set_mon sls ms) =
  map (fun sl => (skey sl, stxw sl, swatch sl, sseen sl)) sls.
Proof.
  revert ms. induction sls as [|sl r IH]; intros [|m mr]; cbn [zipw map]; try reflexivity.
  rewrite IH. reflexivity.
Qed.

(** ** one step *)

Ltac inv H := inversion H; subst; clear H.

(** C13, first half, for one request from any state *)
Lemma step_ok_valid c s r s' :
  step fixed c s r = (s', Ok) -> accepted_ok c s r s'.
Proof.
  destruct r as [h p | prev p | id first wf complete mons | rmons]; cbn [step accepted_ok].
  - unfold add.
    destruct (finish_decode s p (hid h)); try (intros H; discriminate H).
    destruct (pfh p) as [fh|] eqn:Hfh; try (intros H; discriminate H).
    destruct (validate c (height s) (tip s) (h, fh) p false) eqn:Hv; try (intros H; discriminate H).
    assert (Hb := block_valid_of_validate _ _ _ _ _ _ Hv).
    destruct (pty p); try (intros H; discriminate H);
      (destruct (deltas p) as [ds|]; [|intros H; discriminate H]);
      (destruct (add32 (prof c) (height s) 1) as [h'|] eqn:Ha; [|intros H; discriminate H]);
      intros H; inv H; exists fh; cbn [tip height hdrs]; auto.
  - unfold remove.
    destruct (supplied_check c s prev) eqn:Hs; try (intros H; discriminate H).
    apply supplied_check_none in Hs. cbn [pop_early fixed].
    destruct (finish_decode s p (hid (fst prev))); try (intros H; discriminate H).
    destruct (sub32 (prof c) (height s) 1) as [hm1|] eqn:Hh; try (intros H; discriminate H).
    destruct (validate c hm1 prev (tip s) p true) eqn:Hv; try (intros H; discriminate H).
    assert (Hb := block_valid_of_validate _ _ _ _ _ _ Hv).
    destruct (pty p); try (intros H; discriminate H);
      (destruct (deltas p) as [ds|]; [|intros H; discriminate H]);
      intros H; inv H; exists hm1; cbn [tip height hdrs]; auto 10.
  - unfold chunk. destruct wf; cbn [negb]; [|intros H; discriminate H].
    destruct first.
    + destruct (decoding s); try (intros H; discriminate H).
      destruct (mon_dec s && has_listeners s); try (intros H; discriminate H).
      intros H; inv H. cbn [hdrs tip height]. unfold watch_view. cbn [slots].
      rewrite zipw_set_mon_watch. auto.
    + destruct (decoding s) as [[id' b]|]; try (intros H; discriminate H).
      destruct (id' =? id); intros H; inv H. auto.
  - unfold restart. unfold watch_view, quiet.
    destruct (checkpoint c) as [[hd0 h0]|] eqn:Hc.
    + destruct (height s =? 0) eqn:Hz; intros H; inv H; cbn [hdrs tip height slots decoding mon_dec];
        rewrite zipw_set_mon_watch; (split; [reflexivity|]); (split; [split; reflexivity|]).
      * right. apply N.eqb_eq in Hz. split; [exact Hz|]. exists hd0, h0. auto.
      * left. auto.
    + intros H; inv H. cbn [hdrs tip height slots decoding mon_dec].
      rewrite zipw_set_mon_watch. split; [reflexivity|]. split; [split; reflexivity|]. left. auto.
Qed.

Lemma reject_fixed s p took : reject fixed s p took = if is_ext p then quiesce s else s.
Proof. reflexivity. Qed.

(** C13, second half, for one request from any state: a refusal leaves the state as it was
    (and, for a streamed block, without the stream) *)
Lemma step_err_settled c s r s' e :
  step fixed c s r = (s', Err e) -> s' = settled r s.
Proof.
  unfold settled. destruct r as [h p | prev p | id first wf complete mons | rmons]; cbn [step streamed].
  - unfold add. rewrite !reject_fixed.
    destruct (finish_decode s p (hid h)); try (intros H; inv H; reflexivity).
    destruct (pfh p) as [fh|]; try (intros H; discriminate H).
    destruct (validate c (height s) (tip s) (h, fh) p false); try (intros H; inv H; reflexivity).
    destruct (pty p) eqn:Hp; try (intros H; inv H; reflexivity);
      (destruct (deltas p) as [ds|]; [|intros H; discriminate H]);
      (destruct (add32 (prof c) (height s) 1) as [h'|]; intros H; discriminate H).
  - unfold remove. cbn [pop_early fixed]. rewrite !reject_fixed.
    destruct (supplied_check c s prev); try (intros H; inv H; reflexivity).
    destruct (finish_decode s p (hid (fst prev))); try (intros H; inv H; reflexivity).
    destruct (sub32 (prof c) (height s) 1) as [hm1|]; try (intros H; discriminate H).
    destruct (validate c hm1 prev (tip s) p true); try (intros H; inv H; reflexivity).
    destruct (pty p); try (intros H; inv H; reflexivity);
      (destruct (deltas p) as [ds|]; intros H; discriminate H).
  - unfold chunk. destruct wf; cbn [negb]; [|intros H; discriminate H].
    destruct first.
    + destruct (decoding s); try (intros H; discriminate H).
      destruct (mon_dec s && has_listeners s); intros H; discriminate H.
    + destruct (decoding s) as [[id' b]|]; try (intros H; discriminate H).
      destruct (id' =? id); intros H; discriminate H.
  - unfold restart. destruct (checkpoint c) as [[hd0 h0]|]; [destruct (height s =? 0)|]; intros H; discriminate H.
Qed.

Lemma view_quiesce s : view (quiesce s) = view s.
Proof. reflexivity. Qed.

Lemma view_settled r s : view (settled r s) = view s.
Proof. unfold settled. destruct (streamed r); reflexivity. Qed.

Lemma step_err_atomic c s r s' e :
  step fixed c s r = (s', Err e) -> view s' = view s /\ s' = settled r s.
Proof.
  intros H. apply step_err_settled in H. subst. split; [apply view_settled | reflexivity].
Qed.

(** a refused request that is not streamed can only be refused outside a stream, except for
    the early refusals of [remove_block]; after any refusal of a streamed request, and after
    a refusal outside a stream, nothing is being decoded *)
Lemma settled_quiet r s :
  streamed r = true \/ quiet s -> quiet (settled r s).
Proof.
  unfold settled. destruct (streamed r); intros [H|H]; try discriminate; try exact H.
  - split; reflexivity.
  - split; reflexivity.
Qed.

(** ** correct requests are accepted *)

Lemma add32_small p a : a < U32MAX -> add32 p a 1 = Val (a + 1).
Proof.
  intros H. unfold add32, U32MAX, two32 in *. destruct p.
  - destruct (a + 1 <=? 4294967295) eqn:E; [reflexivity | lia].
  - rewrite N.mod_small by lia. reflexivity.
Qed.

Lemma sub32_pos p a : 0 < a -> a <= U32MAX -> sub32 p a 1 = Val (a - 1).
Proof.
  intros H H2. unfold sub32, U32MAX, two32 in *. destruct p.
  - destruct (1 <=? a) eqn:E; [reflexivity | lia].
  - replace (a + 4294967296 - 1) with ((a - 1) + 1 * 4294967296) by lia.
    rewrite N.mod_add by lia. rewrite N.mod_small by lia. reflexivity.
Qed.

Lemma correct_add_accepted c s h p :
  decoding s = None -> pty p = PFilter -> correct_add c s h p ->
  snd (step fixed c s (Add h p)) = Ok.
Proof.
  intros Hd Hp ([fh Hfh] & Hdl & Hl & Hpow & Hc & Hr & Hh).
  cbn [step]. unfold add, finish_decode, is_ext. rewrite Hd, Hp, Hfh.
  rewrite (validate_complete c (height s) (tip s) (h, fh) p false Hl Hpow Hc Hr).
  destruct (deltas p) as [ds|]; [|congruence].
  rewrite (add32_small _ _ Hh). reflexivity.
Qed.

Lemma correct_remove_accepted c s prev p :
  decoding s = None -> pty p = PFilter -> correct_remove c s prev p ->
  snd (step fixed c s (Remove prev p)) = Ok.
Proof.
  intros Hd Hp (Hdl & Hs & Hh & Hh2 & Hl & Hpow & Hc & Hr).
  cbn [step]. unfold remove, finish_decode, is_ext. cbn [pop_early fixed]. rewrite Hs, Hd, Hp.
  rewrite (sub32_pos _ _ Hh Hh2).
  rewrite (validate_complete c (height s - 1) prev (tip s) p true Hl Hpow Hc Hr).
  destruct (deltas p) as [ds|]; [|congruence]. reflexivity.
Qed.

(** the correctness predicates read the persisted image only *)
Lemma correct_add_view c s1 s2 h p : view s1 = view s2 -> correct_add c s1 h p -> correct_add c s2 h p.
Proof.
  unfold view, correct_add. intros H. inversion H as [[H1 H2 H3 H4]]. rewrite H2, H3. auto.
Qed.
Lemma correct_remove_view c s1 s2 prev p :
  view s1 = view s2 -> correct_remove c s1 prev p -> correct_remove c s2 prev p.
Proof.
  unfold view, correct_remove, supplied_check. intros H. inversion H as [[H1 H2 H3 H4]].
  rewrite H1, H2, H3. auto.
Qed.

(** a streamed correct block: the stream (here in one chunk) and the request *)
Lemma correct_stream_accepted c s h p mons :
  quiet s -> pty p = PExternal -> correct_add c s h p ->
  exists s1, step fixed c s (Chunk (hid h) true true true mons) = (s1, Ok) /\
             snd (step fixed c s1 (Add h p)) = Ok.
Proof.
  intros [Hd Hm] Hp ([fh Hfh] & Hdl & Hl & Hpow & Hc & Hr & Hh).
  cbn [step]. unfold chunk. cbn [negb]. rewrite Hd, Hm. cbn [andb].
  eexists. split; [reflexivity|].
  unfold add, finish_decode, is_ext. cbn [decoding negb height tip]. rewrite Hp, N.eqb_refl, Hfh.
  rewrite (validate_complete c (height s) (tip s) (h, fh) p false Hl Hpow Hc Hr).
  destruct (deltas p) as [ds|]; [|congruence].
  rewrite (add32_small _ _ Hh). reflexivity.
Qed.

(** ** histories *)

Lemma steps_forall (P : tstate * req * tstate * result -> Prop) v c :
  (forall s r, P (s, r, fst (step v c s r), snd (step v c s r))) ->
  forall rs s, Forall P (steps v c s rs).
Proof.
  intros HP. induction rs as [|r rs IH]; intros s; cbn [steps]; [constructor|].
  pose proof (HP s r) as H1. destruct (step v c s r) as [s1 res] eqn:E. cbn [fst snd] in H1.
  constructor; [exact H1|]. destruct res; [apply IH | apply IH | constructor].
Qed.

Lemma history_ok_valid c rs s :
  Forall (fun '(s1, r, s2, res) => res = Ok -> accepted_ok c s1 r s2) (steps fixed c s rs).
Proof.
  apply steps_forall. intros s1 r Hres.
  apply step_ok_valid. rewrite <- Hres. apply surjective_pairing.
Qed.

Lemma history_err_atomic c rs s :
  Forall (fun '(s1, r, s2, res) => forall e, res = Err e -> view s2 = view s1 /\ s2 = settled r s1)
         (steps fixed c s rs).
Proof.
  apply steps_forall. intros s1 r e Hres.
  apply (step_err_atomic c s1 r _ e). rewrite <- Hres. apply surjective_pairing.
Qed.

Lemma step_later_ok c s r s' e : step fixed c s r = (s', Err e) -> later_ok c s r s'.
Proof.
  intros H Hq. apply step_err_atomic in H. destruct H as [Hv ->].
  pose proof (settled_quiet r s Hq) as [Hd Hm].
  repeat split.
  - intros h p Hp Hc. apply correct_add_accepted; [exact Hd | exact Hp |].
    apply (correct_add_view c s); [symmetry; exact Hv | exact Hc].
  - intros prev p Hp Hc. apply correct_remove_accepted; [exact Hd | exact Hp |].
    apply (correct_remove_view c s); [symmetry; exact Hv | exact Hc].
  - intros h p mons Hp Hc. apply correct_stream_accepted; [split; assumption | exact Hp |].
    apply (correct_add_view c s); [symmetry; exact Hv | exact Hc].
Qed.

Lemma history_later_ok c rs s :
  Forall (fun '(s1, r, s2, res) => forall e, res = Err e -> later_ok c s1 r s2) (steps fixed c s rs).
Proof.
  apply steps_forall. intros s1 r e Hres.
  apply (step_later_ok c s1 r _ e). rewrite <- Hres. apply surjective_pairing.
Qed.

(** ** invariants of all histories *)

Lemma run_invariant (I : tstate -> Prop) v c :
  (forall s r, I s -> I (fst (step v c s r))) ->
  forall rs s, I s -> I (run v c s rs).
Proof.
  intros HI. induction rs as [|r rs IH]; intros s Hs; cbn [run]; [exact Hs|].
  pose proof (HI s r Hs) as H1. destruct (step v c s r) as [s1 res]. cbn [fst] in H1.
  destruct res; [apply IH; exact H1 | apply IH; exact H1 | exact H1].
Qed.

(** listeners hold a decode state only while the tracker itself is streaming *)
Lemma step_clean c s r : clean s -> clean (fst (step fixed c s r)).
Proof.
  intros Hs.
  assert (Hq : forall b : bool, b = true -> clean (if b then quiesce s else s))
    by (intros [] Hb; [unfold clean; cbn; discriminate | discriminate Hb]).
  assert (Hq' : forall b : bool, clean (if b then quiesce s else s))
    by (intros []; [unfold clean; cbn; discriminate | exact Hs]).
  destruct r as [h p | prev p | id first wf complete mons | rmons]; cbn [step].
  - unfold add. rewrite !reject_fixed. unfold finish_decode.
    destruct (decoding s) as [[i b]|] eqn:Hd.
    + (* streaming: only an external proof gets past the assertion *)
      destruct (is_ext p) eqn:He; cbn [negb fst]; [|exact Hs].
      destruct b; cbn [negb fst]; [|exact Hs].
      destruct (i =? hid h); cbn [fst]; [|first [exact (Hq' true) | exact (Hq' false) | apply Hq']].
      destruct (pfh p) as [fh|]; cbn [fst]; [|exact Hs].
      destruct (validate c (height s) (tip s) (h, fh) p false); cbn [fst]; try exact Hs; try first [exact (Hq' true) | exact (Hq' false) | apply Hq'].
      unfold is_ext in He.
      destruct (pty p); try discriminate He; cbn [fst];
        (destruct (deltas p); [|exact Hs]);
        (destruct (add32 (prof c) (height s) 1); [|exact Hs]); unfold clean; cbn; discriminate.
    + assert (Hm : mon_dec s = false).
      { destruct (mon_dec s) eqn:E; [exfalso; exact (Hs E Hd) | reflexivity]. }
      destruct (is_ext p) eqn:He; cbn [fst]; [exact Hs|].
      destruct (pfh p) as [fh|]; cbn [fst]; [|exact Hs].
      destruct (validate c (height s) (tip s) (h, fh) p false); cbn [fst]; try exact Hs.
      destruct (pty p); cbn [fst]; try exact Hs;
        (destruct (deltas p); [|exact Hs]);
        (destruct (add32 (prof c) (height s) 1); [|exact Hs]); unfold clean; cbn [fst mon_dec];
        rewrite Hm; discriminate.
  - unfold remove. cbn [pop_early fixed]. rewrite !reject_fixed. unfold finish_decode.
    destruct (supplied_check c s prev); cbn [fst]; [first [exact (Hq' true) | exact (Hq' false) | apply Hq']|].
    destruct (decoding s) as [[i b]|] eqn:Hd.
    + destruct (is_ext p) eqn:He; cbn [negb fst]; [|exact Hs].
      destruct b; cbn [negb fst]; [|exact Hs].
      destruct (i =? hid (fst prev)); cbn [fst]; [|first [exact (Hq' true) | exact (Hq' false) | apply Hq']].
      destruct (sub32 (prof c) (height s) 1) as [hm1|]; cbn [fst]; [|exact Hs].
      destruct (validate c hm1 prev (tip s) p true); cbn [fst]; try exact Hs; try first [exact (Hq' true) | exact (Hq' false) | apply Hq'].
      unfold is_ext in He.
      destruct (pty p); try discriminate He; cbn [fst];
        (destruct (deltas p); [|exact Hs]); unfold clean; cbn; discriminate.
    + assert (Hm : mon_dec s = false).
      { destruct (mon_dec s) eqn:E; [exfalso; exact (Hs E Hd) | reflexivity]. }
      destruct (is_ext p) eqn:He; cbn [fst]; [exact Hs|].
      destruct (sub32 (prof c) (height s) 1) as [hm1|]; cbn [fst]; [|exact Hs].
      destruct (validate c hm1 prev (tip s) p true); cbn [fst]; try exact Hs.
      destruct (pty p); cbn [fst]; try exact Hs;
        (destruct (deltas p); [|exact Hs]); unfold clean; cbn [fst mon_dec]; rewrite Hm; discriminate.
  - unfold chunk. destruct wf; cbn [negb fst]; [|exact Hs].
    destruct first.
    + destruct (decoding s); cbn [fst]; [exact Hs|].
      destruct (mon_dec s && has_listeners s); cbn [fst]; [exact Hs|].
      unfold clean. cbn. discriminate.
    + destruct (decoding s) as [[id' b]|] eqn:Hd; cbn [fst]; [|exact Hs].
      destruct (id' =? id); cbn [fst]; [|exact Hs]. unfold clean. cbn. discriminate.
  - unfold restart. destruct (checkpoint c) as [[hd0 h0]|]; [destruct (height s =? 0)|];
      cbn [fst]; unfold clean; cbn; discriminate.
Qed.

Lemma history_clean c rs s : clean s -> clean (run fixed c s rs).
Proof. apply run_invariant. intros s0 r. apply step_clean. Qed.

(** the remembered window stays a chain below the tip and within MAX_REORG_SIZE *)
Lemma linked_firstn ch l n : linked ch l -> linked ch (firstn n l).
Proof.
  revert ch n. induction l as [|h t IH]; intros ch [|n]; cbn [firstn linked]; auto.
  intros [H1 H2]. split; [exact H1 | apply IH; exact H2].
Qed.

Lemma step_window_ok c s r : window_ok s -> window_ok (fst (step fixed c s r)).
Proof.
  unfold window_ok. intros [Hl Hn].
  destruct r as [h p | prev p | id first wf complete mons | rmons]; cbn [step].
  - unfold add. rewrite !reject_fixed.
    assert (Hq : forall b : bool, linked (fst (tip (if b then quiesce s else s))) (hdrs (if b then quiesce s else s)) /\
                           (length (hdrs (if b then quiesce s else s)) <= MAX_REORG_SIZE)%nat)
      by (intros []; cbn; auto).
    destruct (finish_decode s p (hid h)); cbn [fst]; auto.
    destruct (pfh p) as [fh|]; cbn [fst]; auto.
    destruct (validate c (height s) (tip s) (h, fh) p false) eqn:Hv; cbn [fst]; auto.
    apply validate_ok in Hv. destruct Hv as (Hlk & _).
    destruct (pty p); cbn [fst]; auto;
      (destruct (deltas p); [|cbn [fst]; auto]);
      (destruct (add32 (prof c) (height s) 1); cbn [fst]; auto);
      cbn [tip hdrs fst linked length]; (split; [split; [exact Hlk | apply linked_firstn; exact Hl]|]);
      rewrite firstn_length; unfold MAX_REORG_SIZE in *; lia.
  - unfold remove. cbn [pop_early fixed]. rewrite !reject_fixed.
    assert (Hq : forall b : bool, linked (fst (tip (if b then quiesce s else s))) (hdrs (if b then quiesce s else s)) /\
                           (length (hdrs (if b then quiesce s else s)) <= MAX_REORG_SIZE)%nat)
      by (intros []; cbn; auto).
    destruct (supplied_check c s prev) eqn:Hs; cbn [fst]; auto.
    apply supplied_check_none in Hs.
    destruct (finish_decode s p (hid (fst prev))); cbn [fst]; auto.
    destruct (sub32 (prof c) (height s) 1) as [hm1|]; cbn [fst]; auto.
    destruct (validate c hm1 prev (tip s) p true); cbn [fst]; auto.
    assert (Hfin : linked (fst prev) (tl (hdrs s)) /\ (length (tl (hdrs s)) <= MAX_REORG_SIZE)%nat).
    { destruct (hdrs s) as [|h0 t]; cbn [tl linked length] in *; [split; [exact I | lia]|].
      subst h0. destruct Hl as [_ Hl]. split; [exact Hl | lia]. }
    destruct (pty p); cbn [fst]; auto; (destruct (deltas p); cbn [fst]; auto).
  - unfold chunk. destruct wf; cbn [negb fst]; auto.
    destruct first.
    + destruct (decoding s); cbn [fst]; auto.
      destruct (mon_dec s && has_listeners s); cbn [fst]; auto.
    + destruct (decoding s) as [[id' b]|]; cbn [fst]; auto.
      destruct (id' =? id); cbn [fst]; auto.
  - unfold restart. destruct (checkpoint c) as [[hd0 h0]|]; [destruct (height s =? 0)|];
      cbn [fst tip hdrs linked length]; auto. split; [exact I | unfold MAX_REORG_SIZE; lia].
Qed.

Lemma history_window_ok c rs s : window_ok s -> window_ok (run fixed c s rs).
Proof. apply run_invariant. intros s0 r. apply step_window_ok. Qed.
