(** Proofs about [Model.Velocity]: the sliding-window bound over every history with
    restarts (C12). *)
From VLS Require Import Base.U64 Model.Velocity.
From Coq Require Import ZifyBool ZifyN ZifyNat.

(** ** arithmetic helpers (division by the variable interval) *)

Lemma div_sub_aligned (I s now : N) :
  I <> 0 -> s mod I = 0 -> s <= now -> (now - s) / I = now / I - s / I.
Proof.
  intros HI Hs Hle.
  assert (Hs' : s = s / I * I).
  { pose proof (N.div_mod s I HI) as Hdm. rewrite Hs in Hdm. nia. }
  assert (Hn : now = (now - s) + s / I * I) by lia.
  assert (Hq : now / I = (now - s) / I + s / I).
  { rewrite <- (N.div_add (now - s) (s / I) I HI). rewrite <- Hn. reflexivity. }
  dlia.
Qed.

Lemma floor_aligned (I now : N) :
  I <> 0 -> (now - now mod I) mod I = 0 /\ (now - now mod I) / I = now / I.
Proof.
  intros HI.
  assert (H : now - now mod I = now / I * I).
  { pose proof (N.div_mod now I HI). pose proof (N.mod_le now I HI). nia. }
  rewrite H. split; [apply N.mod_mul | apply N.div_mul]; exact HI.
Qed.

Lemma epoch_close (I t now n : N) :
  I <> 0 -> now < t + n * I -> now / I <= t / I + n.
Proof.
  intros HI H.
  rewrite <- (N.div_add t n I HI).
  apply N.div_le_mono; [exact HI | lia].
Qed.

Lemma epoch_mono (I a b : N) : I <> 0 -> a <= b -> a / I <= b / I.
Proof. intros HI H. apply N.div_le_mono; assumption. Qed.

(** ** lists *)

Lemma sum_N_repeat0 n : sum_N (repeat 0 n) = 0.
Proof. induction n as [|n IH]; cbn [repeat sum_N]; lia. Qed.

Lemma sum_N_firstn_le k l : sum_N (firstn k l) <= sum_N l.
Proof.
  revert k; induction l as [|x l IH]; intros [|k]; cbn [firstn sum_N]; try lia.
  specialize (IH k). lia.
Qed.

Lemma sum_N_firstn_repeat0 k n : sum_N (firstn k (repeat 0 n)) = 0.
Proof. pose proof (sum_N_firstn_le k (repeat 0 n)) as H. rewrite sum_N_repeat0 in H. lia. Qed.

Lemma shift_length n bs : (n <= length bs)%nat -> length (shift_buckets n bs) = length bs.
Proof.
  intros H. unfold shift_buckets. rewrite app_length, repeat_length, firstn_length. lia.
Qed.

Lemma shift_firstn_sum n bs k :
  (n <= length bs)%nat -> (k <= length bs)%nat ->
  sum_N (firstn k (shift_buckets n bs)) =
  if (k <=? n)%nat then 0 else sum_N (firstn (k - n)%nat bs).
Proof.
  intros Hn Hk. unfold shift_buckets.
  rewrite firstn_app, sum_N_app, repeat_length, sum_N_firstn_repeat0, firstn_firstn.
  destruct (Nat.leb_spec k n) as [Hle|Hgt].
  - replace (k - n)%nat with 0%nat by lia. cbn [Nat.min firstn sum_N]. lia.
  - replace (Nat.min (k - n) (length bs - n)) with (k - n)%nat by lia. lia.
Qed.

Lemma firstn_all_sum l : sum_N (firstn (length l) l) = sum_N l.
Proof. rewrite firstn_all. reflexivity. Qed.

(** ** weighted sums over the approval log *)

Lemma wsum_app p l1 l2 : wsum p (l1 ++ l2) = wsum p l1 + wsum p l2.
Proof.
  induction l1 as [|[t a] l1 IH]; cbn [wsum app]; [lia|]. rewrite IH. lia.
Qed.

Lemma wsum_mono (p q : N -> bool) log :
  Forall (fun e => p (fst e) = true -> q (fst e) = true) log ->
  wsum p log <= wsum q log.
Proof.
  induction 1 as [|[t a] l Hx _ IH]; cbn [wsum fst] in *; [lia|].
  destruct (p t) eqn:Hp.
  - rewrite (Hx eq_refl). lia.
  - destruct (q t); lia.
Qed.

Lemma wsum_ext (p q : N -> bool) log :
  Forall (fun e => p (fst e) = q (fst e)) log -> wsum p log = wsum q log.
Proof.
  induction 1 as [|[t a] l Hx _ IH]; cbn [wsum fst] in *; [lia|].
  rewrite Hx, IH. reflexivity.
Qed.

Lemma wsum_none (p : N -> bool) log :
  Forall (fun e => p (fst e) = false) log -> wsum p log = 0.
Proof.
  induction 1 as [|[t a] l Hx _ IH]; cbn [wsum fst] in *; [lia|].
  rewrite Hx, IH. lia.
Qed.

(** ** the bucket invariant *)

Section Control.
Variables (I lim : N) (nb : nat).
Hypothesis HI : I <> 0.
Hypothesis Hnb : (0 < nb)%nat.
Hypothesis Hlim : lim < U64MAX.

(** [BInv c log last]: the control [c] accounts exactly for the approvals in [log] (all of
    which happened no later than [last]) in the epochs it still tracks *)
Record BInv (c : vc) (log : list (N * N)) : Prop := {
  bi_interval : interval c = I;
  bi_len : length (buckets c) = nb;
  bi_limit : limit c = lim;
  bi_aligned : start c mod I = 0;
  bi_past : Forall (fun e => fst e / I <= start c / I) log;
  bi_sums : forall k, (k <= nb)%nat ->
      sum_N (firstn k (buckets c)) =
      wsum (fun t => start c / I <? t / I + N.of_nat k) log;
  bi_bound : sum_N (buckets c) <= lim
}.

Lemma BInv_total c log : BInv c log ->
  sum_N (buckets c) = wsum (fun t => start c / I <? t / I + N.of_nat nb) log.
Proof.
  intros B. rewrite <- (bi_sums c log B nb (le_n nb)), <- (bi_len c log B).
  symmetry. apply firstn_all_sum.
Qed.

Lemma BInv_velocity c log : BInv c log -> velocity c = sum_N (buckets c).
Proof.
  intros B. unfold velocity. apply sat_sum_exact.
  pose proof (bi_bound c log B). lia.
Qed.

Lemma BInv_fresh : BInv (fresh lim I nb) [].
Proof.
  constructor; cbn [fresh interval buckets limit start wsum]; try reflexivity.
  - apply repeat_length.
  - constructor.
  - intros k _. apply sum_N_firstn_repeat0.
  - rewrite sum_N_repeat0. lia.
Qed.

Lemma nshift_le c now : (nshift_of c now <= length (buckets c))%nat.
Proof. unfold nshift_of. lia. Qed.

Lemma BInv_advance c log now :
  BInv c log -> start c <= now -> Forall (fun e => fst e <= now) log ->
  BInv (advance c now) log.
Proof.
  intros B Hge Hpast.
  destruct (floor_aligned I now HI) as [Hal Hep].
  pose proof (bi_interval _ _ B) as Hi.
  pose proof (bi_len _ _ B) as Hl.
  pose proof (div_sub_aligned I (start c) now HI (bi_aligned _ _ B) Hge) as Hd.
  pose proof (epoch_mono I (start c) now HI Hge) as Hmono.
  assert (Hn : nshift_of c now = N.to_nat (N.min (N.of_nat nb) (now / I - start c / I))).
  { unfold nshift_of. rewrite Hi, Hl, Hd. reflexivity. }
  constructor; unfold advance; cbn [interval buckets limit start]; rewrite ?Hi.
  - reflexivity.
  - rewrite shift_length by apply nshift_le. exact Hl.
  - apply (bi_limit _ _ B).
  - exact Hal.
  - rewrite Hep. eapply Forall_impl; [|exact Hpast].
    intros e He. apply epoch_mono; assumption.
  - intros k Hk. rewrite Hep.
    rewrite shift_firstn_sum; [| apply nshift_le | lia].
    rewrite Hn.
    destruct (Nat.leb_spec k (N.to_nat (N.min (N.of_nat nb) (now / I - start c / I)))) as [Hle|Hgt].
    + symmetry. apply wsum_none.
      eapply Forall_impl; [|exact (bi_past _ _ B)].
      intros e He. cbn beta in *. dlia.
    + rewrite (bi_sums _ _ B) by lia.
      apply wsum_ext.
      eapply Forall_impl; [|exact (bi_past _ _ B)].
      intros e He. cbn beta in *. dlia.
  - pose proof (bi_bound _ _ B) as Hb.
    pose proof (shift_firstn_sum (nshift_of c now) (buckets c) (length (buckets c))
                  (nshift_le c now) (le_n _)) as Hs.
    rewrite <- (shift_length (nshift_of c now) (buckets c) (nshift_le c now)) in Hs at 1.
    rewrite firstn_all_sum in Hs. rewrite Hs.
    destruct (_ <=? _)%nat; [lia|].
    pose proof (sum_N_firstn_le (length (buckets c) - nshift_of c now)%nat (buckets c)). lia.
Qed.

Lemma advance_start c now : BInv c [] \/ True -> interval c = I -> start (advance c now) / I = now / I.
Proof.
  intros _ Hi. unfold advance; cbn [start]. rewrite Hi.
  apply (floor_aligned I now HI).
Qed.

(** an approved insert extends the log *)
Lemma BInv_add c log now amt :
  BInv c log -> start c / I = now / I ->
  sum_N (buckets c) + amt <= lim ->
  BInv (mkvc (start c) (interval c) (add_bucket0 (buckets c) amt) (limit c))
       (log ++ [(now, amt)]).
Proof.
  intros B Hep Hsum.
  pose proof (bi_len _ _ B) as Hl.
  destruct (buckets c) as [|b0 bs] eqn:Hb; [cbn [length] in Hl; lia|].
  cbn [sum_N] in Hsum.
  assert (Hsat : sat_add b0 amt = b0 + amt) by (apply sat_add_exact; lia).
  constructor; cbn [interval buckets limit start add_bucket0].
  - apply (bi_interval _ _ B).
  - exact Hl.
  - apply (bi_limit _ _ B).
  - apply (bi_aligned _ _ B).
  - apply Forall_app; split; [apply (bi_past _ _ B)|].
    constructor; [cbn [fst]; dlia | constructor].
  - intros k Hk. rewrite wsum_app. cbn [wsum].
    pose proof (bi_sums _ _ B k Hk) as Hs. rewrite Hb in Hs.
    destruct k as [|k].
    + cbn [firstn sum_N] in *. rewrite <- Hs.
      replace (start c / I <? now / I + N.of_nat 0) with false by dlia. lia.
    + cbn [firstn sum_N] in *. rewrite Hsat.
      replace (start c / I <? now / I + N.of_nat (S k)) with true by dlia. lia.
  - cbn [sum_N]. rewrite Hsat. lia.
Qed.

(** ** the window bound as an invariant of the node *)

Definition WInv (log : list (N * N)) : Prop :=
  forall t0 len, len <= (N.of_nat nb - 1) * I -> wsum (in_window t0 len) log <= lim.

Record NInv (s : nodevc) (log : list (N * N)) (last : N) : Prop := {
  ni_mem : BInv (mem s) log;
  ni_disk : BInv (disk s) log;
  ni_mem_start : start (mem s) <= last;
  ni_disk_start : start (disk s) <= last;
  ni_past : Forall (fun e => fst e <= last) log;
  ni_win : WInv log
}.

Lemma insert_spec c log now amt last :
  BInv c log -> start c <= last -> last <= now ->
  Forall (fun e => fst e <= last) log -> WInv log ->
  let '(c1, ok) := insert c now amt in
  let log1 := if ok then log ++ [(now, amt)] else log in
  BInv c1 log1 /\ start c1 <= now /\ WInv log1.
Proof.
  intros B Hs Hl Hpast Hw.
  assert (Hpast' : Forall (fun e => fst e <= now) log).
  { eapply Forall_impl; [|exact Hpast]. intros e He. cbn beta in *. lia. }
  assert (B1 : BInv (advance c now) log) by (apply BInv_advance; [assumption|lia|assumption]).
  assert (Hst : start (advance c now) <= now).
  { unfold advance; cbn [start]. lia. }
  unfold insert.
  destruct (limit (advance c now) <? sat_add (velocity (advance c now)) amt) eqn:Hchk.
  - split; [exact B1 | split; [exact Hst | exact Hw]].
  - rewrite (BInv_velocity _ _ B1), (bi_limit _ _ B1) in Hchk.
    assert (Hsum : sum_N (buckets (advance c now)) + amt <= lim).
    { apply sat_add_small; [exact Hlim | lia]. }
    assert (Hep : start (advance c now) / I = now / I).
    { unfold advance; cbn [start]. rewrite (bi_interval _ _ B). apply (floor_aligned I now HI). }
    split; [apply BInv_add; assumption|].
    split; [exact Hst|].
    intros t0 len Hlen. rewrite wsum_app. cbn [wsum].
    destruct (in_window t0 len now) eqn:Hin.
    + (* the new approval lies in the window: everything else in the window is still tracked *)
      rewrite (BInv_total _ _ B1), Hep in Hsum.
      assert (Hle : wsum (in_window t0 len) log <=
                    wsum (fun t => now / I <? t / I + N.of_nat nb) log).
      { apply wsum_mono. eapply Forall_impl; [|exact Hpast'].
        intros [t a] Ht Hwin. cbn [fst] in *. unfold in_window in *.
        assert (Hc : now < t + (N.of_nat nb - 1) * I) by lia.
        pose proof (epoch_close I t now (N.of_nat nb - 1) HI Hc). dlia. }
      lia.
    + specialize (Hw t0 len Hlen). lia.
Qed.

End Control.

(** ** lifting to every history of the node *)

Section Node.
Variables (it : itype) (lim0 : N).

Definition lim := fst (fst (spec_triple it lim0)).
Definition I := snd (fst (spec_triple it lim0)).
Definition nb := snd (spec_triple it lim0).

Hypothesis Hlimited : lim < U64MAX.

Lemma I_nonzero : I <> 0.
Proof. unfold I. destruct it; cbn; lia. Qed.
Lemma nb_pos : (0 < nb)%nat.
Proof. unfold nb. destruct it; cbn; lia. Qed.

Lemma of_spec_fresh : of_spec it lim0 = fresh lim I nb.
Proof. unfold of_spec, lim, I, nb. destruct (spec_triple it lim0) as [[l i] n]. reflexivity. Qed.

Lemma restore_id c log : BInv I lim nb c log -> restore it lim0 c = c.
Proof.
  intros B. unfold restore, update_spec, spec_matches.
  pose proof (bi_interval _ _ _ _ _ B) as Hi.
  pose proof (bi_len _ _ _ _ _ B) as Hl.
  pose proof (bi_limit _ _ _ _ _ B) as Hm.
  unfold lim, I, nb in *. destruct (spec_triple it lim0) as [[l i] n]. cbn [fst snd] in *.
  rewrite Hi, Hl, Hm, !N.eqb_refl, Nat.eqb_refl. reflexivity.
Qed.

Lemma NInv_init : NInv I lim nb (vinit it lim0) [] 0.
Proof.
  unfold vinit. rewrite of_spec_fresh.
  pose proof (BInv_fresh I lim nb I_nonzero nb_pos Hlimited) as Bf.
  constructor; cbn [mem disk].
  - exact Bf.
  - exact Bf.
  - cbn [fresh start]. lia.
  - cbn [fresh start]. lia.
  - constructor.
  - intros t0 len _. cbn [wsum]. lia.
Qed.

Lemma vrun_from_inv ops : forall s log last,
  NInv I lim nb s log last ->
  nondecreasing last (op_times ops) = true ->
  let '(s', log') := vrun_from it lim0 s log ops in
  exists last', NInv I lim nb s' log' last'.
Proof.
  induction ops as [|o ops IH]; intros s log last Inv Hnd; cbn [vrun_from].
  - exists last. exact Inv.
  - destruct Inv as [Bm Bd Hms Hds Hpast Hw].
    destruct o as [now amt| |]; cbn [vstep op_times nondecreasing] in *.
    + apply andb_prop in Hnd. destruct Hnd as [Hle Hnd].
      pose proof (insert_spec I lim nb I_nonzero nb_pos Hlimited (mem s) log now amt last
                    Bm Hms ltac:(lia) Hpast Hw) as Hins.
      destruct (insert (mem s) now amt) as [c ok].
      destruct Hins as [Bc [Hcs Hwc]].
      destruct ok.
      * apply (IH _ _ now); [|exact Hnd].
        constructor; cbn [mem disk]; try assumption.
        apply Forall_app; split.
        -- eapply Forall_impl; [|exact Hpast]. intros e He. cbn beta in *. lia.
        -- constructor; [cbn [fst]; lia|constructor].
      * apply (IH _ _ now); [|exact Hnd].
        constructor; cbn [mem disk]; try assumption; try lia.
        eapply Forall_impl; [|exact Hpast]. intros e He. cbn beta in *. lia.
    + apply (IH _ _ last); [|exact Hnd].
      constructor; cbn [mem disk]; assumption.
    + apply (IH _ _ last); [|exact Hnd].
      rewrite (restore_id _ _ Bd).
      constructor; cbn [mem disk]; assumption.
Qed.

Theorem window_bound ops :
  nondecreasing 0 (op_times ops) = true ->
  forall t0 len, len <= (N.of_nat nb - 1) * I ->
  wsum (in_window t0 len) (snd (vrun it lim0 ops)) <= lim.
Proof.
  intros Hnd t0 len Hlen. unfold vrun.
  pose proof (vrun_from_inv ops _ _ _ NInv_init Hnd) as H.
  destruct (vrun_from it lim0 (vinit it lim0) [] ops) as [s' log'].
  destruct H as [last' Inv]. cbn [snd].
  apply (ni_win _ _ _ _ _ _ Inv); exact Hlen.
Qed.

End Node.

(** ** corollaries used by Props/C12.v *)

Lemma unlimited_approves (c : vc) (now amt : N) :
  limit c = U64MAX -> snd (insert c now amt) = true.
Proof.
  intros Hl. unfold insert.
  destruct (limit (advance c now) <? sat_add (velocity (advance c now)) amt) eqn:Hc; [|reflexivity].
  exfalso. unfold advance in Hc; cbn [limit] in Hc. rewrite Hl in Hc.
  pose proof (sat_add_le (velocity (mkvc (now - now mod interval c) (interval c)
     (shift_buckets (nshift_of c now) (buckets c)) U64MAX)) amt). lia.
Qed.

Lemma restart_keeps_counted (it : itype) (lim0 : N) (ops : list vop) :
  fst (fst (spec_triple it lim0)) < U64MAX ->
  nondecreasing 0 (op_times ops) = true ->
  restore it lim0 (disk (fst (vrun it lim0 ops))) = disk (fst (vrun it lim0 ops)).
Proof.
  intros Hl Hnd. unfold vrun.
  pose proof (vrun_from_inv it lim0 Hl ops _ _ _ (NInv_init it lim0 Hl) Hnd) as H.
  destruct (vrun_from it lim0 (vinit it lim0) [] ops) as [s' log'].
  destruct H as [last' Inv]. cbn [fst].
  exact (restore_id it lim0 Hl _ _ (ni_disk _ _ _ _ _ _ Inv)).
Qed.
