(** Facts about the result monad of Base/Rust.v shared by the proofs over the generated files
    of the second generation (Gen/CommitmentPolicyGen.v, Gen/EnforcementRulesGen.v). *)
From Coq Require Import String.
From VLS Require Import Base.Rust.
Require Import Lia.

Lemma add_p_ok prof a b : a + b <= U64MAX -> add_p prof a b = Val (a + b).
Proof.
  intros H. destruct prof; cbn [add_p].
  - destruct (a + b <=? U64MAX) eqn:E; [reflexivity | lia].
  - unfold add_wrap. f_equal. apply N.mod_small. unfold two64, U64MAX in *. lia.
Qed.

Lemma bindR_unit (x : trap (result unit)) : bindR x (fun _ => Val (OkR tt)) = x.
Proof. destruct x as [[[]|t]|]; reflexivity. Qed.

Lemma bindR_cong {A B} (x : trap (result A)) (f g : A -> trap (result B)) :
  (forall a, f a = g a) -> bindR x f = bindR x g.
Proof. intros H. destruct x as [[a|t]|]; cbn [bindR]; [apply H | reflexivity | reflexivity]. Qed.

Lemma bindR_ok {A B} (a : A) (f : A -> trap (result B)) : bindR (Val (OkR a)) f = f a.
Proof. reflexivity. Qed.

(** the generated text ends every block with [Val (OkR tt)]; [norm] removes these units and the
    binds of values already computed *)
Ltac norm := repeat (progress (cbn [bindT]; rewrite ?bindR_unit, ?bindR_ok)).

Lemma if_val {A} (b : bool) (x y : A) : (if b then Val x else Val y) = Val (if b then x else y).
Proof. destruct b; reflexivity. Qed.

(** the outcome of a function that returns a Result, without the tag: [None] = panic *)
Definition status_of {A} (x : trap (result A)) : option bool :=
  match x with
  | Trap => None
  | Val (OkR _) => Some true
  | Val (ErrR _) => Some false
  end.

(** [if c { policy_err!(self, tag, ..) }] followed by [k]: refused iff [c] and the filter does
    not downgrade the tag *)
Lemma status_check {A} swarn (c : bool) tag (k : trap (result A)) :
  status_of (bindR (if c then policy_err swarn tag else Val (OkR tt)) (fun _ => k)) =
  if c && negb (swarn tag) then Some false else status_of k.
Proof. unfold policy_err. destruct c; [destruct (swarn tag)|]; reflexivity. Qed.

Lemma status_check_last swarn (c : bool) tag :
  status_of (if c then policy_err swarn tag else Val (OkR tt)) =
  if c && negb (swarn tag) then Some false else Some true.
Proof. unfold policy_err. destruct c; [destruct (swarn tag)|]; reflexivity. Qed.

Lemma sub_p_ok prof a b : b <= a -> a <= U64MAX -> sub_p prof a b = Val (a - b).
Proof.
  intros H Ha. destruct prof; cbn [sub_p].
  - destruct (b <=? a) eqn:E; [reflexivity | lia].
  - unfold sub_wrap. f_equal. unfold two64, U64MAX in *.
    replace (a + 18446744073709551616 - b) with ((a - b) + 1 * 18446744073709551616) by lia.
    rewrite N.mod_add by lia. apply N.mod_small. lia.
Qed.

Lemma is_empty_len {A} (l : list A) : is_empty_of l = (len_of l =? 0).
Proof. destruct l; [reflexivity|]. unfold len_of. cbn [is_empty_of length]. symmetry. apply N.eqb_neq. lia. Qed.

(** * Sums of u64 values: the outcome does not depend on the order *)
From Coq Require Import Permutation.

Lemma mul_p_ok prof a b : a * b <= U64MAX -> mul_p prof a b = Val (a * b).
Proof.
  intros H. destruct prof; cbn [mul_p].
  - destruct (a * b <=? U64MAX) eqn:E; [reflexivity | lia].
  - unfold mul_wrap. f_equal. apply N.mod_small. unfold two64, U64MAX in *. lia.
Qed.

Lemma sum_from_debug l : forall acc, acc <= U64MAX ->
  sum_from Debug l acc = if acc + sum_N l <=? U64MAX then Val (acc + sum_N l) else Trap.
Proof.
  induction l as [|x r IH]; intros acc Ha; cbn [sum_from sum_N add_p].
  - rewrite N.add_0_r. destruct (acc <=? U64MAX) eqn:E; [reflexivity | lia].
  - destruct (acc + x <=? U64MAX) eqn:E; cbn [bindT].
    + apply N.leb_le in E. rewrite IH by exact E. rewrite N.add_assoc. reflexivity.
    + destruct (acc + (x + sum_N r) <=? U64MAX) eqn:E2; [lia | reflexivity].
Qed.

Lemma sum_from_release l : forall acc,
  sum_from Release l acc = Val (if l then acc else (acc + sum_N l) mod two64).
Proof.
  induction l as [|x r IH]; intros acc; cbn [sum_from sum_N add_p bindT]; [reflexivity|].
  rewrite IH. f_equal. unfold add_wrap. destruct r as [|y r'].
  - cbn [sum_N]. rewrite N.add_0_r. reflexivity.
  - rewrite N.add_mod_idemp_l by (unfold two64; lia). f_equal. lia.
Qed.

Lemma sum_N_perm l l' : Permutation l l' -> sum_N l = sum_N l'.
Proof. induction 1; cbn [sum_N]; lia. Qed.

(** [iter.sum::<u64>()] over the same values in another order: the same value, the same wrap, the
    same panic *)
Lemma sum_p_perm prof l l' : Permutation l l' -> sum_p prof l = sum_p prof l'.
Proof.
  intros P. unfold sum_p. destruct prof.
  - rewrite !sum_from_debug by (unfold U64MAX; lia). rewrite (sum_N_perm l l' P). reflexivity.
  - rewrite !sum_from_release. rewrite (sum_N_perm l l' P).
    destruct l as [|a l], l' as [|b l']; try reflexivity; exfalso;
      first [ apply Permutation_nil in P; discriminate P
            | apply Permutation_sym, Permutation_nil in P; discriminate P ].
Qed.

Lemma sum_p_ok prof l : sum_N l <= U64MAX -> sum_p prof l = Val (sum_N l).
Proof.
  intros H. unfold sum_p. destruct prof.
  - rewrite sum_from_debug by (unfold U64MAX; lia). cbn [N.add].
    destruct (0 + sum_N l <=? U64MAX) eqn:E; [reflexivity | lia].
  - rewrite sum_from_release. destruct l; [reflexivity|]. f_equal.
    apply N.mod_small. unfold two64, U64MAX in *. lia.
Qed.
