(** Facts about the result monad of Base/Rust.v shared by the proofs over the generated files
    of the second generation (Gen/CommitmentPolicyGen.v, Gen/EnforcementRulesGen.v). *)
From Coq Require Import String.
From VLS Require Import Base.Rust.
Require Import Lia.

Lemma add_p_ok prof a b : a + b <= U64MAX -> add_p prof a b = Val (a + b).
Proof.
  intros H. destruct prof; cbn [add_p].
  - destruct (a + b <=? U64MAX) eqn:E; [reflexivity | lia].
  - unfold add_wrap. f_equal. apply N.mod_small. unfold two64, U64MAX in *. lia.
Qed.

Lemma bindR_unit (x : trap (result unit)) : bindR x (fun _ => Val (OkR tt)) = x.
Proof. destruct x as [[[]|t]|]; reflexivity. Qed.

Lemma bindR_cong {A B} (x : trap (result A)) (f g : A -> trap (result B)) :
  (forall a, f a = g a) -> bindR x f = bindR x g.
Proof. intros H. destruct x as [[a|t]|]; cbn [bindR]; [apply H | reflexivity | reflexivity]. Qed.

Lemma bindR_ok {A B} (a : A) (f : A -> trap (result B)) : bindR (Val (OkR a)) f = f a.
Proof. reflexivity. Qed.

(** the generated text ends every block with [Val (OkR tt)]; [norm] removes these units and the
    binds of values already computed *)
Ltac norm := repeat (progress (cbn [bindT]; rewrite ?bindR_unit, ?bindR_ok)).

Lemma if_val {A} (b : bool) (x y : A) : (if b then Val x else Val y) = Val (if b then x else y).
Proof. destruct b; reflexivity. Qed.

(** the outcome of a function that returns a Result, without the tag: [None] = panic *)
Definition status_of {A} (x : trap (result A)) : option bool :=
  match x with
  | Trap => None
  | Val (OkR _) => Some true
  | Val (ErrR _) => Some false
  end.

(** [if c { policy_err!(self, tag, ..) }] followed by [k]: refused iff [c] and the filter does
    not downgrade the tag *)
Lemma status_check {A} swarn (c : bool) tag (k : trap (result A)) :
  status_of (bindR (if c then policy_err swarn tag else Val (OkR tt)) (fun _ => k)) =
  if c && negb (swarn tag) then Some false else status_of k.
Proof. unfold policy_err. destruct c; [destruct (swarn tag)|]; reflexivity. Qed.

Lemma status_check_last swarn (c : bool) tag :
  status_of (if c then policy_err swarn tag else Val (OkR tt)) =
  if c && negb (swarn tag) then Some false else Some true.
Proof. unfold policy_err. destruct c; [destruct (swarn tag)|]; reflexivity. Qed.

Lemma sub_p_ok prof a b : b <= a -> a <= U64MAX -> sub_p prof a b = Val (a - b).
Proof.
  intros H Ha. destruct prof; cbn [sub_p].
  - destruct (b <=? a) eqn:E; [reflexivity | lia].
  - unfold sub_wrap. f_equal. unfold two64, U64MAX in *.
    replace (a + 18446744073709551616 - b) with ((a - b) + 1 * 18446744073709551616) by lia.
    rewrite N.mod_add by lia. apply N.mod_small. lia.
Qed.

Lemma is_empty_len {A} (l : list A) : is_empty_of l = (len_of l =? 0).
Proof. destruct l; [reflexivity|]. unfold len_of. cbn [is_empty_of length]. symmetry. apply N.eqb_neq. lia. Qed.
