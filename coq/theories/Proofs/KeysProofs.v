(** Proofs about Model/Keys.v: history independence of channel keys for the Native and Ldk
    styles, distinctness under injectivity of the hash parameters, and the supporting facts
    (the HMAC key normalisation is injective on the channel ids the API produces; the LDK
    derivation never hits its assert; flipping a bit is an involution). *)
From VLS Require Import Base.U64 Base.Sha256 Model.Secrets Model.Keys Proofs.SecretsProofs.

(** * Bytes plumbing *)
Lemma lookup_in {A} id : forall (l : list (bytes * A)) a, lookup id l = Some a -> In (id, a) l.
Proof.
  induction l as [|[i b] l IH]; intros a Hl; cbn [lookup] in Hl; [discriminate|].
  destruct (bytes_eqb i id) eqn:E.
  - apply bytes_eqb_eq in E. inversion Hl; subst. left; reflexivity.
  - right. apply IH; exact Hl.
Qed.

Lemma replace_in {A} id (a : A) : forall l i a',
  In (i, a') (replace id a l) -> In (i, a') l \/ (i = id /\ a' = a).
Proof.
  induction l as [|[j b] l IH]; intros i a' Hin; cbn [replace] in Hin; [contradiction|].
  destruct (bytes_eqb j id) eqn:E.
  - destruct Hin as [Hin|Hin].
    + apply bytes_eqb_eq in E. inversion Hin; subst. right; split; reflexivity.
    + left; right; exact Hin.
  - destruct Hin as [Hin|Hin].
    + left; left; exact Hin.
    + destruct (IH _ _ Hin) as [H|H]; [left; right; exact H|right; exact H].
Qed.

Lemma slices_eq (a b : bytes) :
  length a = 192%nat -> length b = 192%nat ->
  slice32 0 a = slice32 0 b -> slice32 1 a = slice32 1 b -> slice32 2 a = slice32 2 b ->
  slice32 3 a = slice32 3 b -> slice32 4 a = slice32 4 b -> slice32 5 a = slice32 5 b -> a = b.
Proof.
  intros La Lb H0 H1 H2 H3 H4 H5.
  assert (forall l : bytes, length l = 192%nat ->
            l = slice32 0 l ++ slice32 1 l ++ slice32 2 l ++ slice32 3 l ++ slice32 4 l ++ slice32 5 l) as Hdec.
  { intros l Hl. unfold slice32. cbn [Nat.mul Nat.add].
    do 192 (destruct l as [|? l]; [discriminate Hl|]). destruct l; [reflexivity|discriminate Hl]. }
  rewrite (Hdec a La), (Hdec b Lb), H0, H1, H2, H3, H4, H5. reflexivity.
Qed.

Lemma app_inj_len {A} : forall (a b r1 r2 : list A), length a = length b -> a ++ r1 = b ++ r2 -> a = b.
Proof.
  induction a as [|x a IH]; intros [|y b] r1 r2 Hl He; cbn [length app] in *; try discriminate; [reflexivity|].
  inversion He; subst. f_equal. eapply IH; [|eassumption]. lia.
Qed.

Lemma ldk_mask_length r : length (ldk_mask r) = length r.
Proof. unfold ldk_mask. do 5 (destruct r as [|? r]; [reflexivity|]). reflexivity. Qed.

(** after the mask the first eight bytes, read big-endian, are below 2^31 *)
Lemma ldk_mask_index r :
  length r = 32%nat -> Forall (fun b => b < 256) r -> be_val (firstn 8 (ldk_mask r)) < 2147483648.
Proof.
  intros Hl Hb. do 8 (destruct r as [|? r]; [discriminate Hl|]).
  cbn [ldk_mask firstn be_val fold_left].
  repeat match goal with H : Forall _ (_ :: _) |- _ => inversion H; clear H; subst end.
  match goal with |- context [N.land ?b 127] =>
    assert (N.land b 127 < 128) by
      (replace 127 with (N.ones 7) by reflexivity; rewrite N.land_ones;
       apply N.mod_lt; discriminate);
    set (v := N.land b 127) in * end.
  clearbody v. lia.
Qed.

(** * flip_bit is an involution, hence injective *)
Lemma upd_upd {A} (v w : A) : forall l n, upd n v (upd n w l) = upd n v l.
Proof. induction l as [|a l IH]; intros [|n]; cbn [upd]; try reflexivity. rewrite IH. reflexivity. Qed.
Lemma upd_same {A} : forall (l : list A) n v, nth_error l n = Some v -> upd n v l = l.
Proof.
  induction l as [|a l IH]; intros [|n] v Hn; cbn [upd nth_error] in *; try discriminate.
  - inversion Hn; reflexivity.
  - rewrite IH by exact Hn. reflexivity.
Qed.
Lemma nth_upd_same {A} (v : A) : forall l n w, nth_error l n = Some w -> nth_error (upd n v l) n = Some v.
Proof.
  induction l as [|a l IH]; intros [|n] w Hn; cbn [upd nth_error] in *; try discriminate; [reflexivity|].
  eapply IH; exact Hn.
Qed.

Lemma flip_bit_invol b s : flip_bit b (flip_bit b s) = s.
Proof.
  unfold flip_bit. destruct (nth_error s (Nat.div b 8)) as [v|] eqn:E.
  - rewrite (nth_upd_same _ _ _ _ E), upd_upd.
    rewrite N.lxor_assoc, N.lxor_nilpotent, N.lxor_0_r. apply upd_same; exact E.
  - rewrite E. reflexivity.
Qed.
Lemma flip_bit_inj b s1 s2 : flip_bit b s1 = flip_bit b s2 -> s1 = s2.
Proof. intros Hf. rewrite <- (flip_bit_invol b s1), Hf. apply flip_bit_invol. Qed.

Lemma derive_secret_inj (H : bytes -> bytes) :
  (forall a b, H a = H b -> a = b) ->
  forall bits idx s1 s2,
    derive_secret bytes H flip_bit s1 bits idx = derive_secret bytes H flip_bit s2 bits idx -> s1 = s2.
Proof.
  intros Hinj. induction bits as [|b IH]; intros idx s1 s2 Hd; cbn [derive_secret] in Hd; [exact Hd|].
  apply IH in Hd. unfold dstep in Hd. destruct (N.testbit idx (N.of_nat b)); [|exact Hd].
  apply Hinj, flip_bit_inj in Hd. exact Hd.
Qed.

(** * The HMAC key normalisation is injective on API channel ids *)
Lemma zeros_length n : length (zeros n) = n.
Proof. induction n; cbn [zeros length]; congruence. Qed.
Lemma zeros_all n b : In b (zeros n) -> b = 0.
Proof. induction n; cbn [zeros]; intros Hin; [contradiction|]. destruct Hin as [H|H]; [symmetry; exact H|auto]. Qed.

Lemma hmac_key_short k : (length k <= 64)%nat -> hmac_key k = k ++ zeros (64 - length k).
Proof.
  intros Hl. unfold hmac_key.
  assert (Nat.ltb 64 (length k) = false) as -> by (apply Nat.ltb_ge; exact Hl). reflexivity.
Qed.

Lemma hmac_key_inj_on_api a b : api_id a -> api_id b -> hmac_key a = hmac_key b -> a = b.
Proof.
  assert (forall x y : bytes, length x = length y -> (length x <= 64)%nat -> hmac_key x = hmac_key y -> x = y) as Hsame.
  { intros x y Hl Hx Hk. rewrite !hmac_key_short in Hk by lia. rewrite Hl in Hk.
    apply app_inv_tail in Hk. exact Hk. }
  assert (forall x y : bytes, length x = 32%nat ->
            (length y = 41%nat /\ exists c, In c (skipn 33 y) /\ c <> 0) -> hmac_key x = hmac_key y -> False) as Hdiff.
  { intros x y Hx [Hy [c [Hc Hnz]]] Hk. rewrite !hmac_key_short in Hk by lia. rewrite Hx, Hy in Hk.
    apply Hnz.
    assert (skipn 33 y = skipn 33 (firstn 41 (x ++ zeros (64 - 32)))) as Hs.
    { rewrite Hk, firstn_app, Hy, Nat.sub_diag, firstn_O, app_nil_r, <- Hy, firstn_all. reflexivity. }
    rewrite Hs in Hc. rewrite firstn_app, Hx in Hc. rewrite (firstn_all2 x) in Hc by lia.
    rewrite skipn_app, Hx in Hc. rewrite (skipn_all2 x) in Hc by lia.
    cbn [app] in Hc. simpl in Hc.
    repeat (destruct Hc as [Hc|Hc]; [symmetry; exact Hc|]). contradiction. }
  intros [Ha|Ha] [Hb|Hb] Hk.
  - apply Hsame; [congruence|lia|exact Hk].
  - exfalso. eapply Hdiff; eauto.
  - exfalso. eapply Hdiff; eauto.
  - destruct Ha as [Ha _], Hb as [Hb _]. apply Hsame; [congruence|lia|exact Hk].
Qed.

(** * (peer id, dbid) -> channel id is injective on all of u64 *)
Lemma le_bytes_length n d : length (le_bytes n d) = n.
Proof. revert d; induction n as [|n IH]; intros d; cbn [le_bytes length]; [reflexivity|]. rewrite IH. reflexivity. Qed.

Lemma le_bytes_inj n : forall d1 d2, d1 < 256 ^ N.of_nat n -> d2 < 256 ^ N.of_nat n ->
  le_bytes n d1 = le_bytes n d2 -> d1 = d2.
Proof.
  induction n as [|n IH]; intros d1 d2 H1 H2 He.
  - cbn in H1, H2. lia.
  - cbn [le_bytes] in He. inversion He as [[Hm Hr]].
    rewrite Nat2N.inj_succ, N.pow_succ_r' in H1, H2.
    assert (d1 / 256 = d2 / 256) as Hq.
    { apply IH; [| |exact Hr]; apply N.div_lt_upper_bound; lia. }
    rewrite (N.div_mod d1 256), (N.div_mod d2 256), Hm, Hq by discriminate. reflexivity.
Qed.

Lemma le_bytes_nonzero n : forall d, d < 256 ^ N.of_nat n -> d <> 0 -> exists b, In b (le_bytes n d) /\ b <> 0.
Proof.
  induction n as [|n IH]; intros d Hd Hnz.
  - cbn in Hd. lia.
  - cbn [le_bytes]. destruct (N.eq_dec (d mod 256) 0) as [Hz|Hz].
    + rewrite Nat2N.inj_succ, N.pow_succ_r' in Hd.
      destruct (IH (d / 256)) as [b [Hin Hb]].
      * apply N.div_lt_upper_bound; lia.
      * intros Hq. apply Hnz. rewrite (N.div_mod d 256), Hz, Hq by discriminate. reflexivity.
      * exists b. split; [right; exact Hin|exact Hb].
    + exists (d mod 256). split; [left; reflexivity|exact Hz].
Qed.

Lemma chan_id_of_inj p1 d1 p2 d2 :
  length p1 = length p2 -> d1 < two64 -> d2 < two64 ->
  chan_id_of p1 d1 = chan_id_of p2 d2 -> p1 = p2 /\ d1 = d2.
Proof.
  intros Hl H1 H2 He. unfold chan_id_of in He.
  pose proof (app_inj_len _ _ _ _ Hl He) as Hp. subst p2. apply app_inv_head in He.
  split; [reflexivity|]. apply (le_bytes_inj 8); [exact H1|exact H2|exact He].
Qed.

Lemma chan_id_of_api peer dbid : length peer = 33%nat -> 0 < dbid < two64 -> api_id (chan_id_of peer dbid).
Proof.
  intros Hl Hd. right. unfold chan_id_of. split.
  - rewrite app_length, le_bytes_length, Hl. reflexivity.
  - rewrite skipn_app, Hl, Nat.sub_diag. rewrite skipn_all2 by lia. cbn [app skipn].
    apply le_bytes_nonzero; [exact (proj2 Hd)|lia].
Qed.

(** check_future_secret accepts exactly the channel's own secret of the number asked *)
Lemma check_future_secret_spec (sha : bytes -> bytes) (k : chkeys) (n : nat) (s : bytes) :
  check_future_secret sha k n s = true <-> s = commit_secret sha k n.
Proof. unfold check_future_secret. apply bytes_eqb_eq. Qed.

Section KeysProofs.
  Variable hkdf : bytes -> bytes -> bytes -> nat -> bytes.
  Variable sha : bytes -> bytes.
  Variable xpriv : Type.
  Variable bip_master : N -> bytes -> xpriv.
  Variable bip_child_h : xpriv -> N -> xpriv.
  Variable bip_priv : xpriv -> bytes.
  Variable lnd_key : N -> xpriv -> N -> N -> bytes.

  Local Notation derive := (derive hkdf sha xpriv bip_master bip_child_h bip_priv lnd_key).
  Local Notation derive_kid := (derive_with_keys_id hkdf sha xpriv bip_master bip_child_h bip_priv lnd_key).
  Local Notation channel_keys := (channel_keys hkdf sha xpriv bip_master bip_child_h bip_priv lnd_key).
  Local Notation keys_of := (keys_of hkdf sha xpriv bip_master bip_child_h bip_priv lnd_key).
  Local Notation keys_id := (keys_id hkdf).
  Local Notation step := (step hkdf sha xpriv bip_master bip_child_h bip_priv lnd_key).
  Local Notation run := (run hkdf sha xpriv bip_master bip_child_h bip_priv lnd_key).
  Local Notation restore_chans := (restore_chans hkdf sha xpriv bip_master bip_child_h bip_priv lnd_key).

  Definition same_base (seed : bytes) (st : style) (net : N) (m : mgr) : Prop :=
    m_seed m = seed /\ m_style m = st /\ m_net m = net.

  (** the running basepoint index is read by the Lnd style only *)
  Lemma channel_keys_no_counter st net seed kid bp1 bp2 :
    st <> Lnd -> channel_keys st net seed kid bp1 = channel_keys st net seed kid bp2.
  Proof. intros Hs. destruct st; [reflexivity|reflexivity|contradiction]. Qed.

  Lemma derive_indep seed st net m1 m2 id :
    st <> Lnd -> same_base seed st net m1 -> same_base seed st net m2 ->
    fst (derive m1 id) = fst (derive m2 id).
  Proof.
    intros Hs [S1 [T1 N1]] [S2 [T2 N2]]. unfold Keys.derive, derive_with_keys_id. cbn [fst].
    rewrite S1, S2, T1, T2, N1, N2. apply channel_keys_no_counter; exact Hs.
  Qed.

  Lemma derive_base seed st net m id : same_base seed st net m -> same_base seed st net (snd (derive m id)).
  Proof. intros Hb. exact Hb. Qed.
  Lemma mgr_new_base seed st net : same_base seed st net (mgr_new seed st net).
  Proof. repeat split. Qed.

  Lemma derive_is_keys_of seed st net m id :
    st <> Lnd -> same_base seed st net m -> fst (derive m id) = keys_of st net seed id.
  Proof. intros Hs Hb. apply (derive_indep seed st net); [exact Hs|exact Hb|apply mgr_new_base]. Qed.

  (** * The node invariant *)
  Definition node_inv (seed : bytes) (st : style) (net : N) (nd : node) : Prop :=
    same_base seed st net (n_mgr nd) /\
    forall id sl, In (id, sl) (n_chans nd) -> Some (s_keys sl) = keys_of st net seed id.

  Lemma restore_inv seed st net : st <> Lnd -> forall entries m,
    same_base seed st net m ->
    same_base seed st net (fst (restore_chans m entries)) /\
    forall id sl, In (id, sl) (snd (restore_chans m entries)) -> Some (s_keys sl) = keys_of st net seed id.
  Proof.
    intros Hs. induction entries as [|[id ready] r IH]; intros m Hb; cbn [Keys.restore_chans].
    - split; [exact Hb|]. intros ? ? [].
    - pose proof (derive_is_keys_of seed st net m id Hs Hb) as Hk.
      destruct (derive m id) as [ok m1] eqn:Ed. cbn [fst] in Hk.
      assert (same_base seed st net (bump_chanid m1)) as Hb1.
      { pose proof (derive_base seed st net m id Hb) as H1. rewrite Ed in H1. exact H1. }
      destruct (IH _ Hb1) as [IHb IHc].
      destruct (restore_chans (bump_chanid m1) r) as [m2 rest]. cbn [fst snd] in *.
      destruct ok as [k|]; cbn [fst snd]; (split; [exact IHb|]).
      + intros id' sl [Hin|Hin]; [|apply IHc; exact Hin]. inversion Hin; subst. cbn [s_keys]. exact Hk.
      + exact IHc.
  Qed.

  Lemma step_inv seed st net nd o :
    st <> Lnd -> node_inv seed st net nd -> node_inv seed st net (step nd o).
  Proof.
    intros Hs [Hb Hc]. destruct o as [id|id| |kid|]; cbn [Keys.step].
    - destruct (lookup id (n_chans nd)); [split; assumption|].
      pose proof (derive_is_keys_of seed st net _ id Hs Hb) as Hk.
      pose proof (derive_base seed st net _ id Hb) as Hb1.
      destruct (derive (n_mgr nd) id) as [[k|] m1]; cbn [fst snd] in *; (split; [exact Hb1|]); cbn [n_chans].
      + intros id' sl Hin. apply in_app_or in Hin. destruct Hin as [Hin|[Hin|[]]]; [apply Hc; exact Hin|].
        inversion Hin; subst. cbn [s_keys]. exact Hk.
      + exact Hc.
    - destruct (lookup id (n_chans nd)) as [sl|] eqn:El; [|split; assumption].
      split; [exact Hb|]. cbn [n_chans]. intros id' sl' Hin.
      apply replace_in in Hin. destruct Hin as [Hin|[-> ->]]; [apply Hc; exact Hin|].
      cbn [s_keys]. apply Hc. apply lookup_in; exact El.
    - destruct Hb as [S1 [T1 N1]]. rewrite S1, T1, N1.
      destruct (restore_inv seed st net Hs (n_store nd) _ (mgr_new_base seed st net)) as [Hb' Hc'].
      destruct (restore_chans (mgr_new seed st net) (n_store nd)) as [m1 chans].
      split; [exact Hb'|exact Hc'].
    - split; [exact Hb|exact Hc].
    - split; [exact Hb|exact Hc].
  Qed.

  Lemma run_inv seed st net ops : st <> Lnd -> node_inv seed st net (run seed st net ops).
  Proof.
    intros Hs. unfold Keys.run.
    assert (node_inv seed st net (node_new seed st net)) as H0.
    { split; [apply mgr_new_base|]. intros ? ? []. }
    revert H0. generalize (node_new seed st net). induction ops as [|o ops IH]; intros nd Hn; cbn [fold_left].
    - exact Hn.
    - apply IH. apply step_inv; assumption.
  Qed.

  (** every channel of every reachable node carries exactly [keys_of style net seed id] *)
  Theorem node_keys_function seed st net ops id sl :
    st <> Lnd -> lookup id (n_chans (run seed st net ops)) = Some sl ->
    Some (s_keys sl) = keys_of st net seed id.
  Proof.
    intros Hs Hl. destruct (run_inv seed st net ops Hs) as [_ Hc]. apply Hc. apply lookup_in; exact Hl.
  Qed.

  (** every reachable manager state derives the same keys for the same id *)
  Theorem manager_history_independent seed st net ops1 ops2 id :
    st <> Lnd ->
    fst (derive (n_mgr (run seed st net ops1)) id) = fst (derive (n_mgr (run seed st net ops2)) id).
  Proof.
    intros Hs. destruct (run_inv seed st net ops1 Hs) as [H1 _]. destruct (run_inv seed st net ops2 Hs) as [H2 _].
    apply (derive_indep seed st net); assumption.
  Qed.

  (** * Distinct ids give distinct keys, under injectivity of the hash parameters *)
  Section Distinct.
    Variable seed : bytes.
    Variable net : N.
    Hypothesis hkdf_len : forall s i salt n, length (hkdf s i salt n) = (32 * n)%nat.
    Hypothesis hkdf_bytes : forall s i salt n, Forall (fun b => b < 256) (hkdf s i salt n).
    (** the (masked, for Ldk) per-channel HKDF is injective in its salt on API channel ids *)
    Hypothesis keys_id_inj : forall st id1 id2, api_id id1 -> api_id id2 -> id1 <> id2 ->
      keys_id st (channels_seed hkdf seed) id1 <> keys_id st (channels_seed hkdf seed) id2.
    (** the 192-byte expansion is injective in the key *)
    Hypothesis expand_inj : forall k1 k2, k1 <> k2 ->
      hkdf k1 s_clightning [] 6 <> hkdf k2 s_clightning [] 6.
    Hypothesis sha_inj : forall a b, sha a = sha b -> a = b.

    Lemma keys_id_length st base id : length (keys_id st base id) = 32%nat.
    Proof.
      unfold Keys.keys_id. destruct st; rewrite ?ldk_mask_length, hkdf_len; reflexivity.
    Qed.

    Lemma native_keys_inj k1 k2 : k1 <> k2 -> native_keys hkdf k1 <> native_keys hkdf k2.
    Proof.
      intros Hne Heq. apply (expand_inj k1 k2 Hne). unfold native_keys in Heq.
      inversion Heq. apply slices_eq; try assumption; apply hkdf_len.
    Qed.

    Lemma ldk_never_panics base id :
      exists k, ldk_keys sha xpriv bip_child_h bip_priv seed (keys_id Ldk base id) (master_key hkdf xpriv bip_master Ldk net seed) = Some k.
    Proof.
      unfold ldk_keys, Keys.keys_id.
      pose proof (ldk_mask_index (hkdf base s_per_peer_seed id 1) (hkdf_len _ _ _ _) (hkdf_bytes _ _ _ _)) as Hi.
      set (c := be_val (firstn 8 (ldk_mask (hkdf base s_per_peer_seed id 1)))) in *.
      assert (c <=? U32MAX = true) as -> by (apply N.leb_le; unfold U32MAX; lia).
      assert (as_u32 c = c) as -> by (unfold as_u32, two32; apply N.mod_small; lia).
      assert (c <? 2147483648 = true) as -> by (apply N.ltb_lt; exact Hi).
      cbn [andb]. eexists; reflexivity.
    Qed.

    Lemma ldk_cseed_inj kid1 kid2 m k1 k2 :
      length kid1 = 32%nat -> length kid2 = 32%nat -> kid1 <> kid2 ->
      ldk_keys sha xpriv bip_child_h bip_priv seed kid1 m = Some k1 ->
      ldk_keys sha xpriv bip_child_h bip_priv seed kid2 m = Some k2 ->
      k_cseed k1 <> k_cseed k2.
    Proof.
      intros L1 L2 Hne H1 H2 Heq. unfold ldk_keys in H1, H2.
      destruct (_ && _) in H1; [|discriminate]. destruct (_ && _) in H2; [|discriminate].
      inversion H1; subst k1; clear H1. inversion H2; subst k2; clear H2. cbn [k_cseed] in Heq.
      apply sha_inj, app_inv_tail, sha_inj in Heq. apply Hne.
      eapply app_inj_len; [|exact Heq]. congruence.
    Qed.

    Theorem distinct_ids_distinct_keys st id1 id2 :
      st <> Lnd -> api_id id1 -> api_id id2 -> id1 <> id2 ->
      exists k1 k2, keys_of st net seed id1 = Some k1 /\ keys_of st net seed id2 = Some k2 /\ k1 <> k2 /\
                    (st = Ldk -> k_cseed k1 <> k_cseed k2).
    Proof.
      intros Hs A1 A2 Hne. pose proof (keys_id_inj st id1 id2 A1 A2 Hne) as Hk.
      unfold Keys.keys_of, Keys.derive, derive_with_keys_id, mgr_new. cbn [fst m_style m_seed m_net m_lnd_index].
      destruct st; [| |contradiction]; cbn [Keys.channel_keys].
      - eexists _, _. split; [reflexivity|]. split; [reflexivity|]. split; [|discriminate].
        apply native_keys_inj; exact Hk.
      - destruct (ldk_never_panics (channels_seed hkdf seed) id1) as [k1 E1].
        destruct (ldk_never_panics (channels_seed hkdf seed) id2) as [k2 E2].
        exists k1, k2. split; [exact E1|]. split; [exact E2|].
        assert (k_cseed k1 <> k_cseed k2) as Hc
          by (eapply ldk_cseed_inj; [| |exact Hk|exact E1|exact E2]; apply keys_id_length).
        split; [congruence|intros _; exact Hc].
    Qed.

    (** different commitment seeds release different secrets at every commitment number *)
    Theorem distinct_seeds_distinct_secrets k1 k2 n :
      k_cseed k1 <> k_cseed k2 -> commit_secret sha k1 n <> commit_secret sha k2 n.
    Proof.
      intros Hne Heq. apply Hne. unfold commit_secret, build_commitment_secret in Heq.
      eapply derive_secret_inj; [exact sha_inj|exact Heq].
    Qed.
  End Distinct.
End KeysProofs.
